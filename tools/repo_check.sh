#!/bin/sh
# the pinned suite (hooks off; every test of BASELINE.stable_pass must pass) +
# the tests/*.zy corpus against /repo's working tree (REPO=<dir> checks a scratch worktree instead)
export GOFLAGS=-mod=mod GOPROXY=off
REPO=${REPO:-/repo}
ZBIN=/verif/bin/zygo; [ "$REPO" = /repo ] || ZBIN=$REPO/.zygo-check
cd $REPO && go build ./zygo/ ./cmd/zygo/ || exit 1
go test -json -vet=off -count=1 -timeout 25m ./... 2>&1 | python3 -c "
import sys,json
want=set(json.load(open('/root/.vp/BASELINE.json'))['stable_pass'])
got=set(); failed=set()
for l in sys.stdin:
    try: d=json.loads(l)
    except Exception: continue
    if d.get('Test') and d['Action']=='pass': got.add(d['Package']+'::'+d['Test'])
    if d.get('Test') and d['Action']=='fail': failed.add(d['Package']+'::'+d['Test'])
miss=sorted(want-got)
print('suite: want',len(want),'passed',len(want&got),'missing',miss[:10],'failed',sorted(failed)[:10])
sys.exit(1 if miss or failed else 0)" || exit 1
go build -o $ZBIN ./cmd/zygo || exit 1
rm -rf /tmp/corp && mkdir -p /tmp/corp && cp -r $REPO/tests /tmp/corp/ && cd /tmp/corp
fails=0
for f in tests/*.zy; do
  if ! timeout 20 $ZBIN -demo -exitonfail $f >/tmp/corp/out.txt 2>&1; then echo "FAIL $f"; tail -3 /tmp/corp/out.txt; fails=$((fails+1)); fi
done
cd /; rm -rf /tmp/corp
echo "corpus fails=$fails"
[ $fails -eq 0 ]
