#!/bin/sh
# suite (hooks off) + the tests/*.zy corpus against /repo's working tree
export GOFLAGS=-mod=mod GOPROXY=off
cd /repo && go build ./zygo/ ./cmd/zygo/ || exit 1
go test -vet=off -count=1 ./zygo/ 2>&1 | tail -1
go build -o /verif/bin/zygo ./cmd/zygo || exit 1
rm -rf /tmp/corp && mkdir -p /tmp/corp && cp -r /repo/tests /tmp/corp/ && cd /tmp/corp
fails=0
for f in tests/*.zy; do
  if ! timeout 20 /verif/bin/zygo -demo -exitonfail $f >/tmp/corp/out.txt 2>&1; then echo "FAIL $f"; tail -3 /tmp/corp/out.txt; fails=$((fails+1)); fi
done
echo "corpus fails=$fails"
[ $fails -eq 0 ]
