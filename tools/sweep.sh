#!/bin/sh
# tools/sweep.sh <seed> [checks...] — quick tier of the given checks (default: all) at VERIF_SEED=<seed>,
# evidence and replays written under /tmp/sweep-<seed> (the committed evidence is not touched); prints one line per check
seed=$1; shift
[ $# -eq 0 ] && set -- C01 C02 C03 C04 C05 C06 C07 C08 C09 C10 C11 C12 C13 C14 C15 C16 C17 C18 C19 C20
cd /verif
for p in "$@"; do
  VERIF_SEED=$seed VERIF_OUT_ROOT=/tmp/sweep-$seed ./run $p quick 2>&1 | grep "^$p \|VIOLATION\|BROKEN" | cut -c1-220
done
