#!/bin/sh
# tools/trymut.sh <patch.diff> <check> [tier] — run one check against a scratch copy of /repo's HEAD
# with the patch applied, without touching /repo, /verif/bin, /verif/evidence or /verif/replays.
# Prints the check's summary; exit status is the check's.
set -e
patch=$(readlink -f "$1"); chk=$2; tier=${3:-quick}
id=$$
wt=/tmp/wt-mut-$id; out=/tmp/mut-out-$id
export GOFLAGS=-mod=mod GOPROXY=off GOTOOLCHAIN=auto; unset GOSUMDB
git -C /repo worktree add -q --detach $wt HEAD
trap 'git -C /repo worktree remove --force $wt >/dev/null 2>&1; rm -rf $out /tmp/mut-$id.mod /tmp/mut-$id.sum' EXIT
(cd $wt && (git apply --3way "$patch" >/dev/null 2>&1 || git apply "$patch"))
mkdir -p $out/bin
cd /verif/harness
sed "s#=> /repo#=> $wt#" go.mod > /tmp/mut-$id.mod; cp /repo/go.sum /tmp/mut-$id.sum
go build -modfile=/tmp/mut-$id.mod -tags verif -o $out/bin/vcheck ./cmd/vcheck
(cd $wt && go build -tags verif -o $out/bin/zygo ./cmd/zygo)
cd /verif
set +e
VERIF_BIN_SRC=$out/bin VERIF_OUT_ROOT=$out VERIF_NO_SANITIZER=1 $out/bin/vcheck $chk $tier 2>&1 | grep "^C[0-9][0-9] \|key:\|BROKEN\|VIOLATION" | cut -c1-300
