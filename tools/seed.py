#!/usr/bin/env python3
"""tools/seed.py <seed-id> <src-dir> <property> <check> [<check>...]
Confirms a seeded change (patch.diff + zz_demo_test.go from a sub-agent) in a
scratch worktree of /repo's HEAD, then runs the given checks (quick tier)
against a second scratch copy with the patch applied (tools/trymut.sh; /repo itself
is never modified), and files everything under
/verif/seeded/<seed-id>/ with meta.json."""
import json, os, shutil, subprocess, sys, time

ENV = dict(os.environ, GOFLAGS="-mod=mod", GOPROXY="off")

def sh(cmd, cwd=None, timeout=3600):
    p = subprocess.run(cmd, shell=True, cwd=cwd, env=ENV, stdout=subprocess.PIPE, stderr=subprocess.STDOUT, timeout=timeout)
    return p.returncode, p.stdout.decode(errors="replace")

def main():
    sid, src, prop = sys.argv[1], sys.argv[2], sys.argv[3]
    checks = sys.argv[4:]
    dst = "/verif/seeded/" + sid
    os.makedirs(dst, exist_ok=True)
    for f in ("patch.diff", "zz_demo_test.go", "notes.md"):
        if os.path.exists(os.path.join(src, f)) and os.path.abspath(src) != os.path.abspath(dst):
            shutil.copy(os.path.join(src, f), os.path.join(dst, f))
    patch = os.path.join(dst, "patch.diff")
    demo = os.path.join(dst, "zz_demo_test.go")
    wt = "/tmp/seedwt-" + sid
    sh("git -C /repo worktree remove --force %s" % wt)
    rc, out = sh("git -C /repo worktree add -q --detach %s HEAD" % wt)
    assert rc == 0, out
    meta = {"seed": sid, "property": prop, "repo_head": sh("git -C /repo rev-parse --short HEAD")[1].strip(), "ran": []}
    try:
        shutil.copy(demo, wt + "/zygo/zz_demo_test.go")
        # SEED_LIGHT=1 (re-confirmation of a seed that was fully confirmed before): only the demonstration's own
        # tests are run, not the whole suite three times
        light = os.environ.get("SEED_LIGHT") == "1"
        import re
        names = re.findall(r"^func (Test\w+)\(", open(demo).read(), re.M)
        only = " -run '^(%s)$'" % "|".join(names) if light and names else ""
        meta["light_reconfirmation"] = light
        rc0, out0 = sh("go test -vet=off -count=1%s ./zygo/" % only, cwd=wt)
        meta["clean_suite_plus_demo_passes"] = rc0 == 0
        os.remove(wt + "/zygo/zz_demo_test.go")
        rc, out = sh("git apply --3way %s" % patch, cwd=wt)
        if rc != 0:
            rc, out = sh("git apply %s" % patch, cwd=wt)
        meta["patch_applies"] = rc == 0
        if rc != 0:
            meta["apply_output"] = out[-2000:]
        else:
            sh("git reset -q", cwd=wt)
            sh("git diff > %s" % patch, cwd=wt)  # refresh against current HEAD
            rc1, out1 = sh("go build ./zygo/ ./cmd/zygo/" + ("" if light else " && go test -vet=off -count=1 ./zygo/"), cwd=wt)
            meta["patched_builds_and_suite_passes"] = rc1 == 0
            if rc1 != 0:
                meta["suite_output"] = out1[-3000:]
            shutil.copy(demo, wt + "/zygo/zz_demo_test.go")
            rc2, out2 = sh("go test -vet=off -count=1%s ./zygo/" % only, cwd=wt)
            meta["patched_demo_fails"] = rc2 != 0
            meta["demo_failure_excerpt"] = "\n".join([l for l in out2.splitlines() if "FAIL" in l or "want" in l or "got" in l][:12])
    finally:
        sh("git -C /repo worktree remove --force %s" % wt)
    ok = meta.get("clean_suite_plus_demo_passes") and meta.get("patch_applies") and meta.get("patched_builds_and_suite_passes") and meta.get("patched_demo_fails")
    meta["confirmed"] = bool(ok)
    if ok and checks:
        # run the checks against a scratch copy of /repo's HEAD with the patch applied (tools/trymut.sh):
        # /repo, /verif/bin, /verif/evidence and /verif/replays are not touched
        for chk in checks:
            t0 = time.time()
            rc, out = sh("tools/trymut.sh %s %s quick" % (patch, chk), cwd="/verif")
            keys = [l.strip() for l in out.splitlines() if l.strip().startswith("key:")]
            summ = [l for l in out.splitlines() if l.startswith(chk)][:1]
            detected = any("VIOLATION property=" in l for l in out.splitlines())
            meta["ran"].append({"check": chk, "tier": "quick", "exit": 1 if detected else 0, "detected": detected,
                                "violation_keys": keys[:8], "summary": summ, "wall_s": round(time.time() - t0, 1)})
    meta["detected_by"] = [r["check"] for r in meta["ran"] if r["detected"]]
    if ok or not os.environ.get("SEED_KEEP_ON_FAIL") or not os.path.exists(os.path.join(dst, "meta.json")):
        json.dump(meta, open(os.path.join(dst, "meta.json"), "w"), indent=1)
    else:
        print("NOT-RECONFIRMED (meta.json kept):", sid, {k: meta.get(k) for k in ("clean_suite_plus_demo_passes", "patch_applies", "patched_builds_and_suite_passes", "patched_demo_fails")})
    print(json.dumps({k: meta[k] for k in ("seed", "confirmed", "detected_by")}), [(r["check"], r["exit"], r["violation_keys"][:2]) for r in meta["ran"]])

main()
