#!/opt/veriftools/pyvenv/bin/python
import json, jsonschema, glob, sys
jsonschema.validate(json.load(open('/verif/MANIFEST.json')), json.load(open('/root/.vp/MANIFEST.schema.json')))
sch = json.load(open('/root/.vp/EVIDENCE.schema.json'))
for f in sorted(glob.glob('/verif/evidence/*.json')):
    jsonschema.validate(json.load(open(f)), sch)
    print('ok', f)
print('manifest ok')
