#!/bin/sh
# file the round-4 seeded changes delivered under /tmp/out4-<P>/<k>/ as seeded/<P>-<k+8>
cd /verif
for P in "$@"; do
  for k in 1 2; do
    src=/tmp/out4-$P/$k
    [ -f $src/patch.diff ] || { echo "$P-$((k+8)): no patch"; continue; }
    python3 tools/seed.py $P-$((k+8)) $src $P $P 2>&1 | tail -1 | cut -c1-400
  done
done
