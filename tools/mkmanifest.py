#!/usr/bin/env python3
"""Regenerates /verif/MANIFEST.json from the table below (kept in one place so
that the manifest stays valid and in step with the registered checks)."""
import json, subprocess, os

ALL = ["C%02d" % i for i in range(1, 21)]

# id -> (level, technique, level text, level note, design_ref)
CHECKS = {
 "C02": ("exploration", "runtime monitor: generated programs vs executable reference evaluator (value, error, effect trace)",
         "Thousands of type-directed random core-language programs per run, each executed by the real VM in a fresh interpreter (plain and whitespace/comment-noised text) while a host trace function records every effect; an independent reference evaluator decides value, error-ness and effect order. Held on the executions produced, nothing beyond the generated fragment and size bound.",
         "Trusted: the reference evaluator harness/lang/ref.go (calibrated to 0 disagreements on the unchanged tree at several seeds); errors compared by error-ness only; programs whose values leave +-2^52 are skipped (C07's subject).", "DESIGN.md §4.C02"),
 "C03": ("exploration", "runtime monitor: scoping-stress programs vs reference frame chains + post-run closure battery",
         "Random deep nests over a 3-name pool with closures passed, returned, re-pointed and called after their creator returned, dynamic-scope canaries, and a battery calling every global function after the program; judged by the reference evaluator's lexical frame chains.",
         "Trusted: reference evaluator; non-triviality measured by the reference (escaped closure calls, shadowing, repeated activations).", "DESIGN.md §4.C03"),
}

NA_REASON = {}

def main():
    hooks = subprocess.check_output(["git", "-C", "/repo", "log", "--format=%H %s"]).decode().splitlines()
    hook_commits = [l.split()[0] for l in hooks if l.split(" ", 1)[1].startswith("verif hooks")]
    checks = []
    for pid in ALL:
        if pid not in CHECKS:
            continue
        level, tech, text, note, ref = CHECKS[pid]
        checks.append({
            "property_id": pid,
            "quick_cmd": "./run %s quick" % pid,
            "thorough_cmd": "./run %s thorough" % pid,
            "evidence_file": "/verif/evidence/%s.json" % pid,
            "replay_cmd_template": "./run %s quick --replay {path}" % pid,
            "engine": "vcheck",
            "level_claimed": {"category": level, "text": text, "design_ref": ref},
            "level_note": note,
            "technique": tech,
        })
    na = [{"property_id": p, "reason": NA_REASON.get(p, "check not built yet in this session; no claim is made")} for p in ALL if p not in CHECKS]
    m = {
        "version": 1,
        "setup_cmd": "cd /verif/harness && cp /repo/go.sum go.sum && GOFLAGS=-mod=mod GOPROXY=off go build -tags verif -o /verif/bin/vcheck ./cmd/vcheck",
        "hooks": {
            "guard": "verif",
            "enable": "go build -tags verif (harness module zyverif replaces github.com/glycerine/zygomys/v9 by /repo; every ./run rebuilds from the working tree)",
            "baseline_off_cmd": "cd /repo && GOFLAGS=-mod=mod GOPROXY=off go test -json -vet=off -count=1 -timeout 25m ./...",
            "source_commits": hook_commits,
            "add_only": True,
        },
        "engines": [{"name": "vcheck", "path": "/verif/harness", "serves_properties": sorted(CHECKS),
                     "kind_free_text": "Go driver/worker: deterministic case lists from (property, tier, VERIF_SEED), child processes executing the real zygo package built with -tags verif, journals, monitors (escape boundary, trace recorder, fault injector, rest-state, step budget), executable reference models as oracles"}],
        "checks": checks,
        "not_applicable": na,
        "notes": "All checks: ./run <id> <quick|thorough>; VERIF_SEED selects the PRNG stream; known_findings.json lists recorded genuine defects (open) and repaired ones (fixed).",
    }
    json.dump(m, open("/verif/MANIFEST.json", "w"), indent=1)
    print("MANIFEST.json:", len(checks), "checks,", len(na), "not_applicable")

main()
