#!/usr/bin/env python3
"""Regenerates /verif/MANIFEST.json from the table below (kept in one place so
that the manifest stays valid and in step with the registered checks)."""
import json, subprocess, os

ALL = ["C%02d" % i for i in range(1, 21)]

# id -> (level, technique, level text, level note, design_ref)
CHECKS = {
 "C02": ("exploration", "runtime monitor: generated programs vs executable reference evaluator (value, error, effect trace)",
         "Thousands of type-directed random core-language programs per run, each executed by the real VM in a fresh interpreter (plain and whitespace/comment-noised text) while a host trace function records every effect; an independent reference evaluator decides value, error-ness and effect order. Held on the executions produced, nothing beyond the generated fragment and size bound.",
         "Trusted: the reference evaluator harness/lang/ref.go (calibrated to 0 disagreements on the unchanged tree at several seeds); errors compared by error-ness only; programs whose values leave +-2^52 are skipped (C07's subject).", "DESIGN.md §4.C02"),
 "C03": ("exploration", "runtime monitor: scoping-stress programs vs reference frame chains + post-run closure battery",
         "Random deep nests over a 3-name pool with closures passed, returned, re-pointed and called after their creator returned, dynamic-scope canaries, and a battery calling every global function after the program; judged by the reference evaluator's lexical frame chains.",
         "Trusted: reference evaluator; non-triviality measured by the reference (escaped closure calls, shadowing, repeated activations).", "DESIGN.md §4.C03"),
 "C04": ("exploration", "runtime monitor: rest-state invariant at quiescent points (hook accessor), per-call balance via public call hooks, together-vs-separately twin runs, idle-growth history",
         "After every successful evaluation of generated programs and of the declaration surface the four VM stack depths must be back at rest; every call seen by the pre/post call hooks must replace its arguments by one result; the same forms evaluated one at a time in a twin interpreter must agree (real code on both sides); empty input must return nil; a long-lived interpreter serving hundreds of mixed evaluations must keep a constant depth vector.",
         "Trusted: the depth accessor of the verif hook file; balance of failing evaluations is C05's job; instruction-buffer growth is recorded, not judged.", "DESIGN.md §4.C04"),
 "C05": ("fault_enumeration", "runtime fault injection at every k-th host-function call (error and Go panic), every static point (compile error), parse errors and (thorough) every VM instruction; reference-model state + follow-up battery",
         "For each generated program every dynamic execution of the fault point is failed in turn (both failure kinds), including failures absorbed by a host callback that re-enters the VM through Apply; afterwards error-returned, trace prefix, rest state and a follow-up battery are judged against the reference evaluator's state after the same failure. Thorough adds one run per VM instruction index of short programs.",
         "Trusted: reference evaluator for the state after a failure; for compile/instruction faults only model-free oracles (error returned, rest state, prefix trace, generic battery).", "DESIGN.md §4.C05"),
 "C09": ("exploration", "runtime monitor: stack high-water marks from the VM step hook over growing depth + twin/reference comparison of every tail-context composition",
         "All compositions of the nine tail contexts to depth 2 (quick) / 3 (thorough) x seven bodies are run at depths up to 10^4 (10^5/10^6 thorough); the high-water marks of all four stacks sampled by the step hook must not depend on the depth, and value, effects and what earlier closures observe must equal the de-optimised twin and the reference evaluator.",
         "Constant space is established only for the explored depths and shapes (exhaustive to the stated composition depth).", "DESIGN.md §4.C09"),
 "C16": ("exploration", "runtime monitor: generated programs with lazy/strict/variadic formals over all call routes vs reference evaluator with memoising thunks; strict-formal probes",
         "Random programs mixing lazy, strict, closure-valued and variadic formals, called by name, alias, parameter, computed callee, apply, map, recursion and tail calls, with effectful arguments; the reference evaluator decides how often and in which environment each argument is evaluated; every function traces its strict formals so an unevaluated argument in a strict position is visible.",
         "Trusted: reference evaluator's thunk model; substitute compared only where source printing is modelled.", "DESIGN.md §4.C16"),
 "C07": ("exploration", "runtime monitor: exhaustive boundary-grid pairs + random 64-bit patterns through EvalString vs math/big / IEEE oracle, plus trichotomy and symmetry on the interpreter's own answers",
         "Every ordered pair of a 47-value boundary grid (exhaustive) and thousands of random bit patterns are evaluated under every comparison and arithmetic operator with operands injected bit-exactly and as literals; an independent exact oracle decides each result.",
         "Trusted: math/big and Go float64 arithmetic; pairings the statement does not name (uint64 vs others) are not judged.", "DESIGN.md §4.C07"),
 "C14": ("exploration", "runtime monitor: operation histories on one hash vs ordered-map model, every script-level view read after each history (exhaustive to a length bound + random long histories)",
         "All hset/hdel sequences up to a length bound over a key universe with bucket-sharing unequal keys are replayed on the real hash; len, keys, hpair, hget with and without default, str, json and both range forms are compared with an ordered-map model.",
         "Trusted: the 40-line ordered-map model; JSON only checked for value order here (C11 checks well-formedness).", "DESIGN.md §4.C14"),
 "C19": ("exploration", "runtime monitor: exhaustive API histories over an interpreter family (MakeSymbol/GenSymbol/Duplicate/Clone) against a name<->number bijection, plus script-level histories",
         "Every sequence of 4 (quick) / 5 (thorough) operations over three family members and a name pool of generated-looking names is executed against the real symbol table; each returned symbol is entered into a global bijection and generated symbols must be new; script histories check (== a b) and hash-key identity.",
         "Trusted: the bijection bookkeeping of the monitor; sequences addressing a not-yet-existing member are cut.", "DESIGN.md §4.C19"),
 "C06": ("exploration", "runtime monitor: (infixExpand {...}) tree vs independent precedence-climbing parse of the same tokens; twin evaluation block vs prefix form; semantic programs vs Go-computed expectations",
         "All operator sequences of length 1-2 (quick) / 1-3 (thorough) over the 18 binary operators in three spacings with rotating operand kinds, plus random long sequences, are expanded by the real Pratt parser and compared with an independent parse under the documented table; each block is also evaluated against its prefix form in a twin interpreter; statement lists, if/else, all for-header shapes, labelled break/continue and indexed assignment are checked against closed-form expectations.",
         "Trusted: the documented binding-power table as transcribed in the harness; printed operand forms taken from the unchanged tree; ambiguous sign spellings excluded.", "DESIGN.md §4.C06"),
 "C13": ("exploration", "runtime monitor: whole-vs-pieces twin parses at every cut position, prefix classifier for the more-input decision, fresh-vs-history twin parses on the interpreter's own parser, last-token twin evaluations",
         "Every single cut (exhaustive), every pair of cuts of short texts and random multi-cuts of corpus windows, generated programs and infix renderings are delivered to the real parser and compared with the whole-text parse; intermediate returns are judged by a bracket/string/comment classifier; histories of successful, failed and abandoned loads must not change how a probe is read; a final token without trailing whitespace must not be lost through EvalString.",
         "Trusted: the 60-line prefix classifier (only consulted where it is certain); only texts valid as a whole are cut.", "DESIGN.md §4.C13"),
 "C15": ("exploration", "runtime monitor: value of random ^templates vs independent substitution function; macro call vs hand-written expansion in a twin interpreter; caller state before/after expansion",
         "Random nested templates with unquotes and splices at every position are evaluated by the real VM and compared structurally with an independent substitution over the same AST; ten macro shapes are called at six kinds of call site with effectful arguments and compared (value, trace) with the hand-written expansion in a twin interpreter; macexpand must print the model expansion, run nothing and leave stack depths, global names and global values untouched.",
         "Trusted: the 40-line substitution function; hash literals in templates denote (hash k v ...) lists as on the unchanged tree.", "DESIGN.md §4.C15"),
 "C17": ("exploration", "runtime monitor: write histories over 20 write routes on instances of freshly declared structs; invariant walker over the live instances after every step against a declaration model",
         "Random histories of constructions and field writes through every route (functions, dot paths, infix and index assignment, pointers, JSON/msgpack decoding, nested paths, element writes), with ill-typed, undeclared and exactly matching values and a redeclaration in between; after every step each live instance is inspected through the exported hash fields against the declaration in force at its creation; rejected writes must not change the instance and matching writes must succeed.",
         "Trusted: the declaration model (arrays typed by their first element, as the language defines); one recorded finding (unchecked element writes into slice fields).", "DESIGN.md §4.C17"),
 "C18": ("exploration", "runtime monitor: canary integers on every member of random package trees, every path accessed through read/call/write routes from outside and through inside getters, judged by a visibility model",
         "Random trees of nested packages with value, function and hash members (upper/lower/underscore/non-ASCII first runes) are built in the real interpreter; every member path is accessed from outside through the package, aliases and a hash holding it; a private read is observed when the member's unique canary shows up, a private write when the package's own getter reports a changed value; public paths must resolve and inside code must keep access.",
         "Trusted: the 30-line visibility model (capitalisation at the last hop and before entering a hash; packages traversable; hash keys are not members).", "DESIGN.md §4.C18"),
 "C12": ("exploration", "runtime monitor: values built through the Go API printed by the real printer and read back by the real reader, structural equality walker; literal spellings from the documented grammar vs strconv/math/big",
         "Thousands of data values over every rune class, float magnitude and nesting are printed and read back ((read (str v)), (eval (read (str v))), source of a scratch file) and compared structurally; every literal spelling generated from the reader's own grammar in four contexts is evaluated and compared with the exact value; character and string literals of 278 runes are checked.",
         "Trusted: strconv/math/big; the literal grammar is transcribed from the reader's regular expressions; a float printing without fraction may read back as an equal int.", "DESIGN.md §4.C12"),
 "C11": ("exploration", "runtime monitor: round trips through the real json/unjson and msgpack/unmsgpack builtins with a structural equality walker; the JSON bytes judged by encoding/json (validity and denotation)",
         "Nested records, hashes, arrays and scalars with strings over every rune class and numbers at the 2^53 / 64-bit limits are built through the Go API, encoded and decoded by the real builtins and compared (numbers by value, type names, key order at every level); the emitted JSON text must be accepted by encoding/json and denote the same data; string-keyed hash literals are checked for well-formedness and denotation.",
         "Trusted: encoding/json as the standard decoder; the structural walker.", "DESIGN.md §4.C11"),
 "C10": ("exploration", "runtime monitor: generated Go values -> record literal -> real converters (SexpToGoStructs, receiver/argument conversion of Go method calls, Echo round trip), compared by canonical rendering with pointer identity; negative cases must error",
         "Random values of harness-registered struct types covering every supported field kind (three levels of embedding, shared records, interface-typed members) are written as record literals, converted by the real reflection code through the Go API and through Go method calls, compared with the generated value, sent through an identity method and converted again; records with one undeclared field or one wrong-kind value must make every conversion route report an error.",
         "Trusted: the canonical renderer of the harness; time.Time is only checked in the record->Go direction (the way back is pinned to nil by the repository's own test).", "DESIGN.md §4.C10"),
 "C08": ("exploration", "runtime monitor: canary files / environment / marker paths, an inotify watch on the canary directory and (thorough) strace of cmd/zygo -sandbox, while every name a sandboxed interpreter knows is invoked with hostile arguments",
         "Every global, macro, builtin, reserved word and compiler special form of a bare and a standard-setup sandbox (plus 40 names of outside-world primitives) is called with 24 argument shapes and through aliases, apply, map, eval, str2sym, macros and infix; value-level canaries (nonce in results, new globals, changed/created paths, environment sentinel), an in-process inotify watch and, in the thorough tier, the system calls of the real CLI under strace decide whether the outside world was reached.",
         "Outside world = files, processes, environment, exit, sockets; the monitors see the canary directory and the traced calls only.", "DESIGN.md §4.C08"),
 "C20": ("exploration", "runtime monitor: repeated runs of each program in fresh interpreters at different positions of a process and in fresh processes; all observations (value, stdout, error text) must be identical",
         "Hand-written programs around every map-walking conversion, the script corpus without file/time/random features and generated programs are each evaluated 8 (quick) / 20 (thorough) times in one process as the 1st..4th interpreter after unrelated interpreters, and in 2 / 5 fresh processes (new map iteration seeds); printed value, captured stdout and full error text are compared after normalising pointers and Go stack traces.",
         "Determinism is observed, not proved: an order-dependence that shows up with probability p per run is caught with probability 1-(1-p)^(N+M-1); one recorded finding (script-declared types leak into later interpreters through the process-global registry).", "DESIGN.md §4.C20"),
 "C01": ("exploration", "runtime monitor: recover() escape boundary around every script-facing entry point, child-process death attribution through journals, (nil,nil) and unprintable results, VM step budget and watchdog; hostile inputs enumerated and mutated",
         "Every 1-2 (quick) / 1-3 (thorough) token string over a 103-token alphabet, every special form and bound name with 0-4 hostile arguments, mutations of the script corpus and of generated programs, self-referential values, hostile histories on one interpreter, and lines fed to the real REPL and CLI are pushed through EvalString, LoadString+Run, ParseTokens (whole and in pieces) and EvalExpressions; anything reaching the harness's recover(), killing the child process, returning (nil,nil) or failing to print is a violation.",
         "Names that end, block or leave the process by design are not called; honest resource exhaustion is inconclusive (step budget); inputs beyond the enumerated lengths (e.g. a million nested brackets) are not explored.", "DESIGN.md §4.C01"),
}

NA_REASON = {}

# additions made after the two rounds of seeded changes (DESIGN.md §0.2, §0.5)
ADDENDA = {
 "C03": " 29 scoping programs with fixed expectations, among them captured variables read and written through dot paths after the creating activation returned, a parameter named like its function in tail position, and the function's own name re-bound in an and/or operand or a cond predicate.",
 "C01": " Also: index / slice / selector expressions over every combination of seven bounds as values, assignment sources and targets; dotted pairs and improper argument lists; 30 constructs nested 200 / 2000 (thorough 6000) deep; every form in operand position between user-function calls. Thorough repeats the quick case list in workers built with the race detector (+checkptr).",
 "C02": " The generator also carries break/continue in final and non-final and/or operands and cond predicates, and integer power. 27 fixed-expectation programs (late binding, fresh literals incl. {}, effects before a wrong-arity error, append/concat results not sharing storage, ranging over keys of several types). Also per-iteration parameters of functions recursing by tail calls (closures made on the way keep theirs) and map / apply over the empty list.",
 "C04": " The declaration surface includes include/source of several files (empty and comment-only ones), typed funcs with empty bodies and several results, empty (begin)/(newScope); the idle history mixes in compile-time failures of every for clause, macros, packages and funcs. Host-API sequences (EvalString, LoadString x n + Run, ParseTokens+EvalExpressions, Apply, Duplicate) judged by a model of the globals, rest state and empty-input probes.",
 "C05": " Position sweep: 71 templates (every sub-form position of literals, templates, special forms, infix constructs, declarations, higher-order builtins) x 13 failing forms must fail, leave the VM at rest, keep earlier definitions and run nothing after the failure. Host-API sequences with failing steps mixed in (compile, runtime, parse, macro, lazy-force failures; a pending load followed by a failing load). Failing forms include a macro / function / typed function defined again with a body that does not compile (the earlier definition must still answer) and hash lookups whose computed key fails; host functions that apply a failing Go builtin (eval, map, apply, hget) and handle the error themselves.",
 "C06": " Three-clause for headers are checked with every subset of their clauses empty. Operands that are postfix chains (recs[1].b, (g a).b, h.k[0], m[0][1], q[i:]) and blocks nested in blocks executed repeatedly. Every block is also translated, and when its value is a number or boolean evaluated, while a macro is being expanded; semantic programs also run with a comment directly after the opening brace and with a labelled loop as the block's first statement.",
 "C07": " Calls with three operands must equal the nested binary calls (left fold). The same object on both sides; 12000 refused comparisons in one interpreter; comparison results overwritten through pointers.",
 "C08": " Routes include calls made while a macro body runs (directly and through eval; macro bodies run in a duplicated interpreter) and expectError / assert / lazy-argument / loop / sort-callback / package-body wrappers. A full unsandboxed interpreter is created first in the same process; aliases named like the dangerous primitives called through a variable; CLI flag combinations with -sandbox.",
 "C09": " Also 34 non-tail contexts (array/list/hash/template construction, assert, arithmetic, tests, initializers, assignments, loop bodies, non-final operands) and wrong-arity self calls below every tail context, and 23 tail-recursive functions with unusual signatures (variadic, zero-parameter, lazy, typed, package members, body-level defs), all judged against the same function with the self call wrapped in a host identity call. Typed funcs whose tail self call passes a wrong-typed argument or passes its arguments by name (either order, unknown label).",
 "C10": " Also a struct whose Go field names repeat across its embedding tree, convert / change / convert-again sequences over every route, undeclared fields with nil or [] values. Thorough repeats the quick case list in race-detector (+checkptr) workers (the converter's unsafe helper).",
 "C11": " The bytes of one value must still decode to it after another value was encoded in between. Strings made of the encoders' own punctuation; after a container nested in the value is changed in place the next encoding must decode to the changed value.",
 "C12": " Radix, decimal and ULL spellings at the 63/64-bit limits are checked in every tier. Poisoned lexer sequences (texts abandoned inside an escape), shared sub-arrays, the owritef route.",
 "C13": " Every prefix of three token-rich texts is loaded and abandoned (stopping the lexer inside escapes, exponents, multi-rune operators, comment openers) before 18 rich probes. Thorough repeats the quick case list in race-detector workers (the parser runs in an iter.Pull coroutine).",
 "C14": " (str h) and (json h) must be exactly those of a hash built afresh from the model's content. Hashes referenced from two places, views (keys, hpair, ranges) that must not alias the hash, eight copy scenarios followed by deletes in the original. 60 histories store values of every kind (nil, empty string, zero, false, empty containers, chars, floats) under symbol, string and integer keys, judged under every view including the one-variable go-style range.",
 "C15": " Thirteen macro shapes (three whose expansion breaks / continues out of the caller's loop) at seven kinds of call site, including below let+newScope inside a loop with the names read again afterwards. Ten fixed template/macro expectations (self call inside an unquote or splice, duplicated and reordered argument effects), macros written in Go (AddMacro) in operand, let, function-body and loop position, 1500 failing expansions followed by ordinary macro use in the same and a fresh interpreter.",
 "C16": " 28 lazy-versus-strict twin programs (apply/map binding non-self-evaluating values to lazy formals; argument variables re-bound in the forcing frame) must behave like the same program with strict formals. Dot-path arguments of strict functions (16 callee shapes, five with the path in a lazy position, x 6 call routes x 4 containers x 6 places where the root is bound; tail self calls) must denote the caller's value.",
 "C17": " The inner struct's name extends the outer one's; fields include a pointer to a struct; a struct declared without fields must accept no key of any kind; values include pointers to other structs, the type int64 itself and [nil 1]. A rune field written with characters; arrays computed by map, keys, append, rest, slice, concat and arrays changed in place after their type was first asked for.",
 "C18": " Generic accessors (hget in all spellings, hpair) handed the package value itself must never return a private member's canary. Every value path is also handed as the caller's argument to a function defined inside a package; private members of an enclosing package are named through each nested package that does not define them (read, def, set, infix assignment, call, hash descent).",
 "C19": " Script histories include names that differ only in letter case, judged through ==, !=, and equality of arrays and lists holding the symbols. The name pool includes the empty name (33 operations).",
 "C20": " The earlier interpreters also fail inside macro expansions, the compiler, builtins and deep recursion, and edit in place the lists that listing builtins handed out; each fixed program is run once more after every noise program. Fixed programs include record copies (key order of the copy), absent-key probes with colliding keys of another type, nested-container printing after another interpreter chose (pretty true).",
}

def main():
    hooks = subprocess.check_output(["git", "-C", "/repo", "log", "--format=%H %s"]).decode().splitlines()
    hook_commits = [l.split()[0] for l in hooks if l.split(" ", 1)[1].startswith("verif hooks")]
    checks = []
    for pid in ALL:
        if pid not in CHECKS:
            continue
        level, tech, text, note, ref = CHECKS[pid]
        text = text + ADDENDA.get(pid, "")
        checks.append({
            "property_id": pid,
            "quick_cmd": "./run %s quick" % pid,
            "thorough_cmd": "./run %s thorough" % pid,
            "evidence_file": "/verif/evidence/%s.json" % pid,
            "replay_cmd_template": "./run %s quick --replay {path}" % pid,
            "engine": "vcheck",
            "level_claimed": {"category": level, "text": text, "design_ref": ref},
            "level_note": note,
            "technique": tech,
        })
    na = [{"property_id": p, "reason": NA_REASON.get(p, "check not built yet in this session; no claim is made")} for p in ALL if p not in CHECKS]
    m = {
        "version": 1,
        "setup_cmd": "cd /verif/harness && cp /repo/go.sum go.sum && GOFLAGS=-mod=mod GOPROXY=off go build -tags verif -o /verif/bin/vcheck ./cmd/vcheck && GOFLAGS=-mod=mod GOPROXY=off go build -tags verif -o /verif/bin/zygo github.com/glycerine/zygomys/v9/cmd/zygo",
        "hooks": {
            "guard": "verif",
            "enable": "go build -tags verif (harness module zyverif replaces github.com/glycerine/zygomys/v9 by /repo; every ./run rebuilds from the working tree)",
            "baseline_off_cmd": "cd /repo && GOFLAGS=-mod=mod GOPROXY=off go test -json -vet=off -count=1 -timeout 25m ./...",
            "source_commits": hook_commits,
            "add_only": True,
        },
        "engines": [{"name": "vcheck", "path": "/verif/harness", "serves_properties": sorted(CHECKS),
                     "kind_free_text": "Go driver/worker: deterministic case lists from (property, tier, VERIF_SEED), child processes executing the real zygo package built with -tags verif, journals, monitors (escape boundary, trace recorder, fault injector, rest-state, step budget), executable reference models as oracles"}],
        "checks": checks,
        "not_applicable": na,
        "notes": "All checks: ./run <id> <quick|thorough>; VERIF_SEED selects the PRNG stream; known_findings.json lists recorded genuine defects (open) and repaired ones (fixed).",
    }
    json.dump(m, open("/verif/MANIFEST.json", "w"), indent=1)
    print("MANIFEST.json:", len(checks), "checks,", len(na), "not_applicable")

main()
