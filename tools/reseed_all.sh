#!/bin/sh
# re-confirm every seeded change against /repo's HEAD and re-run the checks it is filed under
cd /verif
for d in seeded/*/; do
  id=$(basename $d)
  prop=$(python3 -c "import json;print(json.load(open('$d/meta.json'))['property'])")
  checks=$(python3 -c "import json;print(' '.join(r['check'] for r in json.load(open('$d/meta.json'))['ran']))")
  [ -z "$checks" ] && checks=$prop
  python3 tools/seed.py $id seeded/$id $prop $checks 2>&1 | tail -1
done
