#!/bin/sh
# re-confirm every seeded change against /repo's HEAD and re-run the checks it is filed under
# usage: tools/reseed_all.sh [lanes] [first-id]  (default 4 seeds at a time; every seed works in scratch worktrees of its own).
# Seeds were fully confirmed (suite green with and without the patch) when they were filed; here only the demonstration's own
# tests are re-run (SEED_LIGHT) and a seed that cannot be re-confirmed keeps its meta.json (SEED_KEEP_ON_FAIL) and is reported.
cd /verif
lanes=${1:-4}; first=${2:-C00}
export SEED_LIGHT=1 SEED_KEEP_ON_FAIL=1
ls -d seeded/*/ | awk -v f=seeded/$first '$0 >= f' | xargs -P $lanes -I{} sh -c '
  d={}; id=$(basename $d)
  prop=$(python3 -c "import json;print(json.load(open(\"$d/meta.json\"))[\"property\"])")
  checks=$(python3 -c "import json;print(\" \".join(r[\"check\"] for r in json.load(open(\"$d/meta.json\"))[\"ran\"]))")
  [ -z "$checks" ] && checks=$prop
  python3 tools/seed.py $id seeded/$id $prop $checks 2>&1 | tail -2 | cut -c1-300'
