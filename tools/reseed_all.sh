#!/bin/sh
# re-confirm every seeded change against /repo's HEAD and re-run the checks it is filed under
# usage: tools/reseed_all.sh [lanes]   (default 4 seeds at a time; every seed works in scratch worktrees of its own)
cd /verif
lanes=${1:-4}
ls -d seeded/*/ | xargs -P $lanes -I{} sh -c '
  d={}; id=$(basename $d)
  prop=$(python3 -c "import json;print(json.load(open(\"$d/meta.json\"))[\"property\"])")
  checks=$(python3 -c "import json;print(\" \".join(r[\"check\"] for r in json.load(open(\"$d/meta.json\"))[\"ran\"]))")
  [ -z "$checks" ] && checks=$prop
  python3 tools/seed.py $id seeded/$id $prop $checks 2>&1 | tail -1 | cut -c1-300'
