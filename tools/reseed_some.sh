#!/bin/sh
# tools/reseed_some.sh <lanes> <Cxx> [<Cxx>...] — like reseed_all.sh, for the seeds of the given properties only
cd /verif
lanes=$1; shift
export SEED_LIGHT=1 SEED_KEEP_ON_FAIL=1
for P in "$@"; do ls -d seeded/$P-*/; done | xargs -P $lanes -I{} sh -c '
  d={}; id=$(basename $d)
  prop=$(python3 -c "import json;print(json.load(open(\"$d/meta.json\"))[\"property\"])")
  checks=$(python3 -c "import json;print(\" \".join(r[\"check\"] for r in json.load(open(\"$d/meta.json\"))[\"ran\"]))")
  [ -z "$checks" ] && checks=$prop
  python3 tools/seed.py $id seeded/$id $prop $checks 2>&1 | tail -2 | cut -c1-300'
