#!/bin/sh
# file the round-3 seeded changes delivered under /tmp/out3-<P>/<k>/ as seeded/<P>-<k+5>
# usage: tools/seed_round2.sh C01 C02 ...
cd /verif
for P in "$@"; do
  for k in 1 2 3; do
    src=/tmp/out3-$P/$k
    [ -f $src/patch.diff ] || { echo "$P-$((k+5)): no patch"; continue; }
    python3 tools/seed.py $P-$((k+5)) $src $P $P 2>&1 | tail -1 | cut -c1-400
  done
done
