package core

import (
	"os/exec"
	"syscall"
)

// DieWithParent arranges (Linux) for the child to be killed when the process that started it dies:
// a worker that the driver's watchdog kills must not leave a spinning REPL or CLI child behind.
func DieWithParent(cmd *exec.Cmd) *exec.Cmd {
	if cmd.SysProcAttr == nil {
		cmd.SysProcAttr = &syscall.SysProcAttr{}
	}
	cmd.SysProcAttr.Pdeathsig = syscall.SIGKILL
	return cmd
}
