// Package core: property registry, case results, PRNG, journals.
package core

import (
	"crypto/sha1"
	"encoding/hex"
	"fmt"
	"sort"
	"sync/atomic"
)

// Verdicts are three-valued.
const (
	Held         = "held"
	Violated     = "violated"
	Inconclusive = "inconclusive"
)

// Result of one judged case (one journal line).
type Result struct {
	I          int              `json:"i"`
	Verdict    string           `json:"v"`
	Key        string           `json:"key,omitempty"`    // witness class (violations) / reason (inconclusive)
	Detail     string           `json:"detail,omitempty"` // expected vs observed
	Input      string           `json:"input,omitempty"`  // the case, written out
	Hash       string           `json:"h,omitempty"`      // content hash for distinctness
	Nontrivial bool             `json:"nt,omitempty"`
	Events     map[string]int64 `json:"ev,omitempty"` // what the monitors saw
	Evals      int              `json:"n,omitempty"`  // executions judged inside this case (default 1)
	// Sub-violations: a case may contain several independent judged executions
	// (e.g. every k of a fault enumeration); each distinct key is reported.
	More []SubViolation `json:"more,omitempty"`
}

type SubViolation struct {
	Key    string `json:"key"`
	Detail string `json:"detail"`
	Input  string `json:"input"`
}

func (r *Result) Ev(name string, n int64) {
	if r.Events == nil {
		r.Events = map[string]int64{}
	}
	r.Events[name] += n
}

// Violate marks the case violated; the first violation is the primary one,
// later ones with a different key are kept as sub-violations.
func (r *Result) Violate(key, detail, input string) {
	if r.Verdict != Violated {
		r.Verdict = Violated
		r.Key = key
		r.Detail = detail
		if input != "" {
			r.Input = input
		}
		return
	}
	if r.Key == key {
		return
	}
	for _, m := range r.More {
		if m.Key == key {
			return
		}
	}
	if len(r.More) < 50 {
		r.More = append(r.More, SubViolation{key, detail, input})
	}
}

func HashOf(s string) string {
	h := sha1.Sum([]byte(s))
	return hex.EncodeToString(h[:8])
}

// Ctx is handed to a property's Run.
type Ctx struct {
	Tier   string
	Seed   uint64
	Thor   bool // tier == thorough
	BinDir string
	Work   string // scratch directory of this worker (exists, removed by parent)
	Repo   string
	Replay bool // verbose single-case mode
}

// Prop is one registered property check.
type Prop struct {
	ID          string
	Level       string // exploration | fault_enumeration
	Rule        string
	Assumptions []string
	// NCases returns the number of cases of the deterministic case list.
	NCases func(c *Ctx) int
	// Run judges case i. It must be deterministic in (Seed, Tier, i).
	Run func(c *Ctx, i int) *Result
	// Chunk is the number of cases per child process (default 200).
	Chunk int
	// MustSee lists monitor events that must have been observed at least once,
	// otherwise the run is broken (it observed nothing of what it is about).
	MustSee []string
	// Exhaustive: the tier enumerates a finite space completely (reported).
	Exhaustive func(c *Ctx) bool
	// CaseTimeoutS: wall-clock watchdog per case (inconclusive when it fires).
	CaseTimeoutS int
	// StallS: when > 0 the check calls Beat() once per input and the watchdog
	// also fires when no beat arrived for StallS seconds (a single input is stuck).
	StallS int
	// HangIsViolation: a watchdog hit that reproduces alone with the VM step
	// counter not advancing is a violation (C01 hang rule).
	HangIsViolation bool
	// Sanitize: the thorough tier repeats the quick-tier case list in workers built with
	// -race (race detector + checkptr); any report ends the worker and is a violation.
	Sanitize bool
	// NeedsZygoBin: the parent builds cmd/zygo into BinDir first.
	NeedsZygoBin bool
	// Budget is the default VM step budget per evaluation (0 = 2e6).
	Budget int64
	// Describe renders case i without executing it (used when a case killed its process).
	Describe func(c *Ctx, i int) string
}

var Registry = map[string]*Prop{}

func Register(p *Prop) {
	if _, dup := Registry[p.ID]; dup {
		panic("duplicate property " + p.ID)
	}
	if p.Chunk == 0 {
		p.Chunk = 200
	}
	if p.CaseTimeoutS == 0 {
		p.CaseTimeoutS = 30
	}
	Registry[p.ID] = p
}

func IDs() []string {
	var ids []string
	for id := range Registry {
		ids = append(ids, id)
	}
	sort.Strings(ids)
	return ids
}

// ---------- PRNG: SplitMix64, everything random derives from it ----------

type Rng struct{ s uint64 }

func mix(z uint64) uint64 {
	z = (z ^ (z >> 30)) * 0xbf58476d1ce4e5b9
	z = (z ^ (z >> 27)) * 0x94d049bb133111eb
	return z ^ (z >> 31)
}

// NewRng derives an independent stream from (seed, property, case index, lane).
func NewRng(seed uint64, prop string, i int, lane int) *Rng {
	h := uint64(1469598103934665603)
	for _, c := range []byte(prop) {
		h = (h ^ uint64(c)) * 1099511628211
	}
	s := mix(seed+0x9e3779b97f4a7c15) ^ mix(h) ^ mix(uint64(i)*0x9e3779b97f4a7c15+uint64(lane)+1)
	return &Rng{s: s}
}

func (r *Rng) U64() uint64 {
	r.s += 0x9e3779b97f4a7c15
	return mix(r.s)
}

// N returns a value in [0,n).
func (r *Rng) N(n int) int {
	if n <= 0 {
		return 0
	}
	return int(r.U64() % uint64(n))
}

func (r *Rng) Bool() bool { return r.U64()&1 == 1 }

// P returns true with probability num/den.
func (r *Rng) P(num, den int) bool { return r.N(den) < num }

func (r *Rng) Pick(xs []string) string { return xs[r.N(len(xs))] }

func Sprintf(f string, a ...interface{}) string { return fmt.Sprintf(f, a...) }

// Beats is the per-input heartbeat read by the worker's watchdog.
var Beats atomic.Int64

func Beat() { Beats.Add(1) }

func Trunc(s string, n int) string {
	if len(s) <= n {
		return s
	}
	return s[:n] + fmt.Sprintf("…(+%d bytes)", len(s)-n)
}
