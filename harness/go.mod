module zyverif

go 1.24.2

require github.com/glycerine/zygomys/v9 v9.0.0

require (
	4d63.com/tz v1.2.0 // indirect
	github.com/glycerine/blake2b v0.0.0-20151022103502-3c8c640cd7be // indirect
	github.com/glycerine/fwd v1.1.4-beta.jea // indirect
	github.com/glycerine/greenpack v0.541.0 // indirect
	github.com/glycerine/liner v0.0.0-20160121172638-72909af234e0 // indirect
	github.com/philhofer/fwd v1.0.0 // indirect
	github.com/shurcooL/go v0.0.0-20200502201357-93f07166e636 // indirect
	github.com/shurcooL/go-goon v1.0.0 // indirect
	github.com/tinylib/msgp v1.1.2 // indirect
	github.com/ugorji/go/codec v1.2.12 // indirect
)

replace github.com/glycerine/zygomys/v9 => /repo
