package main
import ("fmt";"runtime/debug";"github.com/glycerine/zygomys/v9/zygo")
func main(){ env:=zygo.NewZlisp(); env.StandardSetup(); v,err:=env.EvalString("(field a.b a:)\n"); fmt.Println(err); defer func(){ if r:=recover(); r!=nil { fmt.Println(r); fmt.Println(string(debug.Stack())) } }(); fmt.Println(v.SexpString(nil)) }
