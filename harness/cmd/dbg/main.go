// dbg evaluates the file given as argument in one interpreter and prints the
// value or error and the depths of the four VM stacks before and after.
package main

import (
	"fmt"
	"os"

	"github.com/glycerine/zygomys/v9/zygo"
	"zyverif/props"
	"zyverif/sut"
)

func main() {
	b, err := os.ReadFile(os.Args[1])
	if err != nil {
		panic(err)
	}
	props.C10Register()
	env := sut.New(true)
	fmt.Println("before:", sut.DepthsOf(env))
	o := sut.Eval(env, string(b), 1000000)
	fmt.Printf("value=%s err=%v panic=%q\n", sut.Show(o.Val), o.Err, o.Panic)
	fmt.Println("after: ", sut.DepthsOf(env))
	_ = zygo.SexpNull
}
