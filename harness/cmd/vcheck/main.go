// vcheck: driver (parent) and worker (child) of the runtime-monitoring checks.
//
//	vcheck <Cxx> <quick|thorough> [--replay file]     parent
//	vcheck -worker -prop Cxx -tier t -seed s -from a -to b -journal f -work d
package main

import (
	"bufio"
	"encoding/json"
	"flag"
	"fmt"
	"os"
	"os/exec"
	"path/filepath"
	"runtime"
	"runtime/debug"
	"sort"
	"strconv"
	"strings"
	"sync"
	"sync/atomic"
	"syscall"
	"time"

	"zyverif/core"
	_ "zyverif/props"
	"zyverif/sut"
)

const verifRoot = "/verif"

func main() {
	if len(os.Args) > 1 && os.Args[1] == "-worker" {
		workerMain(os.Args[2:])
		return
	}
	os.Exit(parentMain(os.Args[1:]))
}

// ------------------------------------------------------------------ worker

type journal struct {
	mu sync.Mutex
	f  *os.File
	w  *bufio.Writer
}

func (j *journal) line(v interface{}) {
	b, _ := json.Marshal(v)
	j.mu.Lock()
	j.w.Write(b)
	j.w.WriteByte('\n')
	j.w.Flush()
	j.mu.Unlock()
}

func workerMain(args []string) {
	fs := flag.NewFlagSet("worker", flag.ExitOnError)
	propID := fs.String("prop", "", "")
	tier := fs.String("tier", "quick", "")
	seed := fs.Uint64("seed", 1, "")
	from := fs.Int("from", 0, "")
	to := fs.Int("to", 0, "")
	jpath := fs.String("journal", "", "")
	work := fs.String("work", "", "")
	sampleEvery := fs.Int("sample", 1, "")
	replay := fs.Bool("replay", false, "")
	bindir := fs.String("bindir", filepath.Join(verifRoot, "bin"), "directory holding the zygo CLI built from the tree under test")
	count := fs.Bool("count", false, "print the number of cases of this property/tier/seed and exit")
	fs.Parse(args)
	p := core.Registry[*propID]
	if p == nil {
		fmt.Fprintln(os.Stderr, "unknown property", *propID)
		os.Exit(2)
	}
	if *count {
		fmt.Println(p.NCases(&core.Ctx{Tier: *tier, Seed: *seed, Thor: *tier == "thorough", BinDir: *bindir, Work: *work, Repo: "/repo"}))
		return
	}
	runtime.GOMAXPROCS(2)
	debug.SetMaxStack(512 << 20)
	if os.Getenv("VERIF_ISOLATED_RETRY") != "" { // confirmation runs of a suspected hang get four times the patience
		p.StallS *= 4
		p.CaseTimeoutS *= 2
	}
	if os.Getenv("VERIF_SANITIZER") != "" { // instrumented build: 5-15x slower, no stall rule
		p.CaseTimeoutS *= 8
		p.StallS = 0
	}
	f, err := os.OpenFile(*jpath, os.O_CREATE|os.O_WRONLY|os.O_APPEND, 0644)
	if err != nil {
		fmt.Fprintln(os.Stderr, err)
		os.Exit(2)
	}
	j := &journal{f: f, w: bufio.NewWriter(f)}
	ctx := &core.Ctx{Tier: *tier, Seed: *seed, Thor: *tier == "thorough", BinDir: *bindir,
		Work: *work, Repo: "/repo", Replay: *replay}

	var cur atomic.Int64
	var startedNs, startBeatA atomic.Int64
	cur.Store(-1)
	go func() { // watchdog: wall clock only ever yields "inconclusive"
		lastBeat, lastSteps, lastBeatAt := int64(-1), sut.StepsNow(), time.Now()
		for {
			time.Sleep(250 * time.Millisecond)
			i := cur.Load()
			if i < 0 {
				lastBeat = -1
				continue
			}
			el := time.Since(time.Unix(0, startedNs.Load()))
			b := core.Beats.Load()
			startBeat := startBeatA.Load()
			if st := sut.StepsNow(); b != lastBeat || st != lastSteps {
				lastBeat, lastSteps, lastBeatAt = b, st, time.Now()
			}
			// only a case that has begun beating can stall: an input started and neither it nor the VM step counter moved since
			stalled := p.StallS > 0 && b > startBeat && time.Since(lastBeatAt) > time.Duration(p.StallS)*time.Second
			var ms runtime.MemStats
			if el > 2*time.Second {
				runtime.ReadMemStats(&ms)
			}
			if ms.HeapAlloc > 6<<30 {
				j.line(core.Result{I: int(i), Verdict: core.Inconclusive, Key: "memory", Detail: "heap above 6 GiB"})
				os.Exit(4)
			}
			if el > time.Duration(p.CaseTimeoutS)*time.Second || stalled {
				s1 := sut.StepsNow()
				time.Sleep(500 * time.Millisecond)
				s2 := sut.StepsNow()
				if cur.Load() != i {
					continue
				}
				adv := "advancing"
				if s1 == s2 {
					adv = "static"
				}
				j.line(core.Result{I: int(i), Verdict: core.Inconclusive, Key: "watchdog", Detail: "vm-steps " + adv})
				buf := make([]byte, 1<<16)
				n := runtime.Stack(buf, true)
				os.Stderr.Write(buf[:n])
				os.Exit(3)
			}
		}
	}()

	for i := *from; i < *to; i++ {
		j.line(map[string]int{"begin": i})
		startedNs.Store(time.Now().UnixNano())
		startBeatA.Store(core.Beats.Load())
		cur.Store(int64(i))
		res := runOne(p, ctx, i)
		cur.Store(-1)
		res.I = i
		if res.Verdict == "" {
			res.Verdict = core.Held
		}
		if res.Hash == "" && res.Input != "" {
			res.Hash = core.HashOf(res.Input)
		}
		if res.Verdict == core.Held && !*replay && (*sampleEvery <= 0 || i%*sampleEvery != 0) {
			res.Input = ""
			res.Detail = ""
		} else {
			res.Input = core.Trunc(res.Input, 6000)
			res.Detail = core.Trunc(res.Detail, 6000)
		}
		j.line(res)
	}
	os.Exit(0)
}

func runOne(p *core.Prop, ctx *core.Ctx, i int) (res *core.Result) {
	defer func() {
		if x := recover(); x != nil {
			site := sut.PanicSite(3)
			res = &core.Result{Verdict: core.Violated, Key: "panic-in-case:" + site,
				Detail: fmt.Sprintf("panic escaped the case runner: %v\n%s", x, core.Trunc(string(debug.Stack()), 3000))}
		}
	}()
	return p.Run(ctx, i)
}

// ------------------------------------------------------------------ parent

type finding struct {
	Property string `json:"property"`
	Key      string `json:"key"`
	Status   string `json:"status"` // open | fixed
	Commit   string `json:"commit,omitempty"`
	What     string `json:"what"`
	Witness  string `json:"witness,omitempty"`
}

type agg struct {
	mu         sync.Mutex
	evals      int
	cases      int
	hashes     map[string]struct{}
	events     map[string]int64
	incon      map[string]int
	samples    []string
	viols      map[string]*core.Result // by key (first witness)
	violCount  map[string]int
	violOrder  []string
	heldCases  int
	inconEx    []string
	inconCases int
}

func (a *agg) add(r *core.Result) {
	a.mu.Lock()
	defer a.mu.Unlock()
	a.cases++
	n := r.Evals
	if n <= 0 {
		n = 1
	}
	a.evals += n
	if r.Nontrivial && r.Hash != "" {
		a.hashes[r.Hash] = struct{}{}
	}
	for k, v := range r.Events {
		a.events[k] += v
	}
	switch r.Verdict {
	case core.Held:
		a.heldCases++
		if r.Input != "" && len(a.samples) < 8 {
			a.samples = append(a.samples, core.Trunc(r.Input, 1500))
		}
	case core.Inconclusive:
		a.inconCases++
		a.incon[r.Key]++
		if len(a.inconEx) < 6 {
			a.inconEx = append(a.inconEx, fmt.Sprintf("case %d: %s %s", r.I, r.Key, r.Detail))
		}
	case core.Violated:
		a.addViol(r.Key, r)
		for _, m := range r.More {
			rr := *r
			rr.Key, rr.Detail, rr.More = m.Key, m.Detail, nil
			if m.Input != "" {
				rr.Input = m.Input
			}
			a.addViol(m.Key, &rr)
		}
	}
}

// binSrc: where ./run left the binaries built from the tree under test (tools/trymut.sh points
// this at a scratch directory holding binaries built from a scratch copy of the repository).
func binSrc() string {
	if d := os.Getenv("VERIF_BIN_SRC"); d != "" {
		return d
	}
	return filepath.Join(verifRoot, "bin")
}

// outRoot: evidence/ and replays/ live under /verif, except for scratch runs against a mutated
// copy of the repository, which must not overwrite the evidence of the real tree.
func outRoot() string {
	if d := os.Getenv("VERIF_OUT_ROOT"); d != "" {
		return d
	}
	return verifRoot
}

func (a *agg) addViol(key string, r *core.Result) {
	if _, ok := a.viols[key]; !ok {
		a.viols[key] = r
		a.violOrder = append(a.violOrder, key)
	}
	a.violCount[key]++
}

func parentMain(args []string) int {
	if len(args) < 2 {
		fmt.Fprintln(os.Stderr, "usage: vcheck <property> <quick|thorough> [--replay file]\nproperties:", strings.Join(core.IDs(), " "))
		return 2
	}
	id, tier := args[0], args[1]
	p := core.Registry[id]
	if p == nil || (tier != "quick" && tier != "thorough") {
		fmt.Fprintln(os.Stderr, "unknown property or tier")
		return 2
	}
	seed := uint64(1)
	if s := os.Getenv("VERIF_SEED"); s != "" {
		if v, err := strconv.ParseUint(s, 10, 64); err == nil {
			seed = v
		}
	}
	self, _ := os.Executable()
	work := filepath.Join(verifRoot, ".work", fmt.Sprintf("%s-%d", id, os.Getpid()))
	os.MkdirAll(work, 0755)
	defer os.RemoveAll(work)
	// The run works from private copies of the binaries ./run has just built, so that a
	// later rebuild of bin/ (another check started on another tree) cannot change the code
	// under test in the middle of this run.
	bindir := filepath.Join(work, "bin")
	os.MkdirAll(bindir, 0755)
	for _, b := range []string{"vcheck", "zygo", "vcheck-race"} {
		src := filepath.Join(binSrc(), b)
		if b == "vcheck" {
			src = self
		}
		if data, err := os.ReadFile(src); err == nil {
			os.WriteFile(filepath.Join(bindir, b), data, 0755)
		}
	}
	if _, err := os.Stat(filepath.Join(bindir, "vcheck")); err == nil {
		self = filepath.Join(bindir, "vcheck")
	}
	ctx := &core.Ctx{Tier: tier, Seed: seed, Thor: tier == "thorough", BinDir: bindir, Work: work, Repo: "/repo"}

	if len(args) >= 4 && args[2] == "--replay" {
		return replayMain(self, p, ctx, args[3])
	}

	start := time.Now()
	n := p.NCases(ctx)
	a := &agg{hashes: map[string]struct{}{}, events: map[string]int64{}, incon: map[string]int{},
		viols: map[string]*core.Result{}, violCount: map[string]int{}}
	sampleEvery := n / 8
	if sampleEvery < 1 {
		sampleEvery = 1
	}

	type chunk struct{ a, b int }
	var chunks []chunk
	for x := 0; x < n; x += p.Chunk {
		y := x + p.Chunk
		if y > n {
			y = n
		}
		chunks = append(chunks, chunk{x, y})
	}
	workers := 16
	if v := os.Getenv("VERIF_JOBS"); v != "" {
		if k, err := strconv.Atoi(v); err == nil && k > 0 {
			workers = k
		}
	}
	ch := make(chan chunk)
	var wg sync.WaitGroup
	var seq atomic.Int64
	for w := 0; w < workers; w++ {
		wg.Add(1)
		go func() {
			defer wg.Done()
			for c := range ch {
				runChunk(self, p, ctx, a, c.a, c.b, sampleEvery, &seq)
			}
		}()
	}
	for _, c := range chunks {
		ch <- c
	}
	close(ch)
	wg.Wait()

	var san map[string]interface{}
	if raceBin := filepath.Join(ctx.BinDir, "vcheck-race"); ctx.Thor && p.Sanitize && os.Getenv("VERIF_NO_SANITIZER") == "" {
		san = sanitizerPass(self, raceBin, p, ctx, a)
	}
	return report(p, ctx, a, n, time.Since(start).Seconds(), san)
}

// sanitizerPass repeats the quick-tier case list of the property in workers built
// with -race (race detector + checkptr, halt_on_error). A report ends the worker;
// the death is attributed to the case that was running and merged into the main
// aggregate under a "race-build:" key. Oracle verdicts of the instrumented workers
// are merged too (same code, other build). Watchdog hits stay inconclusive.
func sanitizerPass(self, raceBin string, p *core.Prop, ctx *core.Ctx, a *agg) map[string]interface{} {
	if _, err := os.Stat(raceBin); err != nil {
		a.mu.Lock()
		a.incon["sanitizer-binary-missing"]++
		a.mu.Unlock()
		return map[string]interface{}{"build": "-race", "ran": false, "why": "bin/vcheck-race not built"}
	}
	start := time.Now()
	sctx := *ctx
	sctx.Tier, sctx.Thor = "quick", false
	sctx.Work = filepath.Join(ctx.Work, "san")
	os.MkdirAll(sctx.Work, 0755)
	// the case count of the other tier is asked from a fresh process (case plans are memoised per process)
	n := 0
	if out, err := exec.Command(self, "-worker", "-prop", p.ID, "-tier", "quick", "-seed", strconv.FormatUint(ctx.Seed, 10), "-work", sctx.Work, "-bindir", ctx.BinDir, "-count").Output(); err == nil {
		ls := strings.Split(strings.TrimSpace(string(out)), "\n")
		n, _ = strconv.Atoi(strings.TrimSpace(ls[len(ls)-1]))
	}
	if n <= 0 {
		a.mu.Lock()
		a.incon["sanitizer-case-count-unavailable"]++
		a.mu.Unlock()
		return map[string]interface{}{"build": "-race", "ran": false, "why": "could not obtain the quick-tier case count"}
	}
	sa := &agg{hashes: map[string]struct{}{}, events: map[string]int64{}, incon: map[string]int{},
		viols: map[string]*core.Result{}, violCount: map[string]int{}}
	os.Setenv("VERIF_WORKER_BIN", raceBin)
	os.Setenv("VERIF_SANITIZER", "race")
	os.Setenv("GORACE", "halt_on_error=1")
	defer func() { os.Unsetenv("VERIF_WORKER_BIN"); os.Unsetenv("VERIF_SANITIZER"); os.Unsetenv("GORACE") }()
	hv := p.HangIsViolation
	p.HangIsViolation = false
	defer func() { p.HangIsViolation = hv }()
	type chunk struct{ a, b int }
	ch := make(chan chunk)
	var wg sync.WaitGroup
	var seq atomic.Int64
	seq.Store(1 << 20)
	for w := 0; w < 16; w++ {
		wg.Add(1)
		go func() {
			defer wg.Done()
			for c := range ch {
				runChunk(self, p, &sctx, sa, c.a, c.b, n, &seq)
			}
		}()
	}
	for x := 0; x < n; x += p.Chunk {
		y := x + p.Chunk
		if y > n {
			y = n
		}
		ch <- chunk{x, y}
	}
	close(ch)
	wg.Wait()
	reports := 0
	for _, key := range sa.violOrder {
		r := sa.viols[key]
		if strings.Contains(key, "DATA RACE") || strings.Contains(key, "checkptr") {
			reports += sa.violCount[key]
		}
		rr := *r
		rr.Key = "race-build:" + key
		a.mu.Lock()
		a.addViol(rr.Key, &rr)
		a.violCount[rr.Key] += sa.violCount[key] - 1
		a.mu.Unlock()
	}
	return map[string]interface{}{
		"build": "go build -race (race detector + checkptr), GORACE=halt_on_error=1", "ran": true,
		"case_list": "quick tier of this property", "cases": sa.cases, "evaluations": sa.evals, "held_cases": sa.heldCases,
		"inconclusive_cases": sa.inconCases, "sanitizer_reports": reports, "violation_classes": len(sa.violOrder),
		"monitor_events": sa.events, "wall_s": time.Since(start).Seconds(),
	}
}

// runChunk executes cases [from,to) in child processes, restarting after a
// child death and attributing the death to the journalled-but-unfinished case.
func runChunk(self string, p *core.Prop, ctx *core.Ctx, a *agg, from, to, sampleEvery int, seq *atomic.Int64) {
	for from < to {
		k := seq.Add(1)
		wdir := filepath.Join(ctx.Work, fmt.Sprintf("w%d", k))
		os.MkdirAll(wdir, 0755)
		jpath := filepath.Join(wdir, "journal")
		results, begun, out, exit := runChild(self, p, ctx, from, to, sampleEvery, jpath, wdir, false)
		done := map[int]bool{}
		for _, r := range results {
			done[r.I] = true
			if r.Verdict == core.Inconclusive && r.Key == "watchdog" {
				r = retryHang(self, p, ctx, r, seq)
			}
			a.add(r)
		}
		next := to
		if begun >= 0 && !done[begun] {
			// the child died while executing case `begun`
			key, detail := classifyDeath(out, exit)
			if exit == 3 || exit == 4 {
				// the worker's own watchdog / memory guard ended the process (exit codes 3 and 4 are only
				// ever produced there); it fired for the previous case just as this one was begun, so
				// nothing was observed about this case
				a.add(&core.Result{I: begun, Verdict: core.Inconclusive, Key: "watchdog", Detail: "worker watchdog exit raced with the start of this case"})
			} else if harnessOwnDeath(out) {
				// the harness's own reference evaluator (plain Go recursion) ran out of stack:
				// nothing was observed about the code under test
				a.add(&core.Result{I: begun, Verdict: core.Inconclusive, Key: "reference-evaluator-out-of-stack", Detail: core.Trunc(detail, 600)})
			} else {
				a.add(&core.Result{I: begun, Verdict: core.Violated, Key: "host-killed:" + key, Nontrivial: false,
					Detail: detail, Input: caseInput(self, p, ctx, begun)})
			}
			next = begun + 1
		} else if begun >= 0 && begun+1 < to && exit != 0 {
			next = begun + 1 // watchdog/memory exit after writing its line
		} else if begun < 0 && exit != 0 {
			a.add(&core.Result{I: from, Verdict: core.Inconclusive, Key: "worker-failed-to-start", Detail: core.Trunc(out, 2000)})
			next = to
		}
		os.RemoveAll(wdir)
		from = next
	}
}

func retryHang(self string, p *core.Prop, ctx *core.Ctx, r *core.Result, seq *atomic.Int64) *core.Result {
	if !p.HangIsViolation || !strings.Contains(r.Detail, "static") {
		return r
	}
	if hangsConfirmed.Load() >= 8 {
		r.Detail += " (not retried: 8 hangs already confirmed in this run)"
		return r
	}
	last := ""
	for try := 0; try < 2; try++ {
		k := seq.Add(1)
		wdir := filepath.Join(ctx.Work, fmt.Sprintf("w%d", k))
		os.MkdirAll(wdir, 0755)
		os.Setenv("VERIF_ISOLATED_RETRY", "1")
		res, _, out, _ := runChild(self, p, ctx, r.I, r.I+1, 1, filepath.Join(wdir, "journal"), wdir, false)
		os.Unsetenv("VERIF_ISOLATED_RETRY")
		os.RemoveAll(wdir)
		last = lastInputLine(out)
		if len(res) != 1 {
			return r
		}
		if !(res[0].Verdict == core.Inconclusive && res[0].Key == "watchdog" && strings.Contains(res[0].Detail, "static")) {
			return res[0]
		}
	}
	if len(last) > 600 {
		// on a long input (a deep nest, a mutated script) seconds of honest, super-linear work in the
		// lexer, parser or compiler cannot be told from a hang by waiting: only short inputs, where
		// honest work takes microseconds, give a verdict
		r.Detail += fmt.Sprintf(" (three isolated runs stalled outside the VM, but the input begun is %d bytes long: no verdict)", len(last))
		return r
	}
	hangsConfirmed.Add(1)
	in := caseInput(self, p, ctx, r.I)
	if last != "" {
		in = last + "\n" + in
	}
	return &core.Result{I: r.I, Verdict: core.Violated, Key: "hang-outside-vm", Input: in,
		Detail: "case did not return within the watchdog in three isolated runs while the VM step counter did not advance; last input begun: " + last}
}

var hangsConfirmed atomic.Int64

// lastInputLine returns the last "<ID>-INPUT ..." marker a worker wrote before it was stopped.
func lastInputLine(out string) string {
	last := ""
	for _, ln := range strings.Split(out, "\n") {
		if k := strings.Index(ln, "-INPUT "); k >= 0 && k <= 4 {
			last = ln
		}
	}
	return core.Trunc(last, 2000)
}

// caseInput asks a fresh child to describe case i without running it... the
// cheapest faithful way is the journal of a replay; to stay safe (the case
// kills its process) we only record the coordinates.
func caseInput(self string, p *core.Prop, ctx *core.Ctx, i int) string {
	if d := p.Describe; d != nil {
		return d(ctx, i)
	}
	return fmt.Sprintf("(case %d of %s/%s seed %d; re-run with --replay)", i, p.ID, ctx.Tier, ctx.Seed)
}

func runChild(self string, p *core.Prop, ctx *core.Ctx, from, to, sampleEvery int, jpath, wdir string, replay bool) (results []*core.Result, begun int, out string, exit int) {
	args := []string{"-worker", "-prop", p.ID, "-tier", ctx.Tier, "-seed", strconv.FormatUint(ctx.Seed, 10),
		"-from", strconv.Itoa(from), "-to", strconv.Itoa(to), "-journal", jpath, "-work", wdir, "-sample", strconv.Itoa(sampleEvery), "-bindir", ctx.BinDir}
	if replay {
		args = append(args, "-replay")
	}
	bin := self
	if alt := os.Getenv("VERIF_WORKER_BIN"); alt != "" {
		bin = alt
	}
	cmd := exec.Command(bin, args...)
	opath := filepath.Join(wdir, "out")
	of, _ := os.Create(opath)
	cmd.Stdout = of
	cmd.Stderr = of
	cmd.Dir = wdir
	cmd.Env = append(os.Environ(), "GOTRACEBACK=all")
	cmd.SysProcAttr = &syscall.SysProcAttr{Setpgid: true}
	begun = -1
	if err := cmd.Start(); err != nil {
		of.Close()
		return nil, -1, err.Error(), 2
	}
	donec := make(chan error, 1)
	go func() { donec <- cmd.Wait() }()
	limit := time.Duration((to-from)*p.CaseTimeoutS+120) * time.Second
	if limit > 90*time.Minute {
		limit = 90 * time.Minute
	}
	select {
	case err := <-donec:
		if err != nil {
			exit = 1
			if ee, ok := err.(*exec.ExitError); ok {
				exit = ee.ExitCode()
				if exit < 0 {
					exit = 128
				}
			}
		}
	case <-time.After(limit):
		syscall.Kill(-cmd.Process.Pid, syscall.SIGKILL)
		<-donec
		exit = 124
	}
	of.Close()
	if b, err := os.ReadFile(opath); err == nil {
		if len(b) > 1<<20 {
			b = append(b[:1<<19], b[len(b)-(1<<19):]...)
		}
		out = string(b)
	}
	jf, err := os.Open(jpath)
	if err != nil {
		return nil, -1, out, exit
	}
	defer jf.Close()
	sc := bufio.NewScanner(jf)
	sc.Buffer(make([]byte, 1<<20), 64<<20)
	for sc.Scan() {
		line := sc.Bytes()
		if len(line) > 9 && string(line[:9]) == `{"begin":` {
			var b struct{ Begin int }
			if json.Unmarshal(line, &b) == nil {
				begun = b.Begin
			}
			continue
		}
		r := &core.Result{}
		if json.Unmarshal(line, r) == nil && r.Verdict != "" {
			results = append(results, r)
		}
	}
	if exit == 124 && begun >= 0 {
		seen := false
		for _, r := range results {
			if r.I == begun {
				seen = true
			}
		}
		if !seen {
			results = append(results, &core.Result{I: begun, Verdict: core.Inconclusive, Key: "parent-watchdog"})
		}
	}
	return
}

// harnessOwnDeath: a Go stack overflow whose innermost frames (the running goroutine's first
// frames) belong to the harness's reference evaluator, not to the code under test.
func harnessOwnDeath(out string) bool {
	if !strings.Contains(out, "goroutine stack exceeds") {
		return false
	}
	k := strings.Index(out, "\ngoroutine ")
	if k < 0 {
		return false
	}
	rest := out[k+1:]
	lines := strings.SplitN(rest, "\n", 14)
	ref, sut := 0, 0
	for _, l := range lines[1:] {
		if strings.HasPrefix(l, "zyverif/lang.(*R).") {
			ref++
		}
		if strings.HasPrefix(l, "github.com/glycerine/zygomys/") {
			sut++
		}
	}
	return ref >= 3 && sut == 0
}

func classifyDeath(out string, exit int) (key, detail string) {
	lines := strings.Split(out, "\n")
	first := ""
	site := ""
	for i, l := range lines {
		if first == "" && (strings.HasPrefix(l, "panic:") || strings.HasPrefix(l, "fatal error:") || strings.Contains(l, "WARNING: DATA RACE") || strings.Contains(l, "AddressSanitizer") || strings.HasPrefix(l, "runtime: goroutine stack exceeds")) {
			first = l
			for _, m := range lines[i:] {
				m = strings.TrimSpace(m) // race reports indent their frames
				if strings.HasPrefix(m, "github.com/glycerine/zygomys/v9/zygo.") {
					site = strings.TrimPrefix(m, "github.com/glycerine/zygomys/v9/zygo.")
					if k := strings.Index(site, "("); k > 0 && !strings.HasPrefix(site, "(") {
						site = site[:k]
					} else if strings.HasPrefix(site, "(") {
						if k := strings.Index(site[1:], "("); k > 0 {
							site = site[:k+1]
						}
					}
					break
				}
			}
			break
		}
	}
	if first == "" {
		first = fmt.Sprintf("exit status %d without a Go panic report", exit)
	}
	if len(first) > 120 {
		first = first[:120]
	}
	key = first
	if site != "" {
		key += " @" + site
	}
	tail := out
	if len(tail) > 4000 {
		tail = tail[:2000] + "\n…\n" + tail[len(tail)-2000:]
	}
	return key, fmt.Sprintf("child process ended (exit %d) while executing this case; output:\n%s", exit, tail)
}

func loadFindings() []finding {
	var doc struct {
		Findings []finding `json:"findings"`
	}
	b, err := os.ReadFile(filepath.Join(verifRoot, "known_findings.json"))
	if err != nil {
		return nil
	}
	if err := json.Unmarshal(b, &doc); err != nil {
		fmt.Fprintln(os.Stderr, "known_findings.json unreadable:", err)
		return nil
	}
	return doc.Findings
}

func report(p *core.Prop, ctx *core.Ctx, a *agg, ncases int, wall float64, san map[string]interface{}) int {
	known := map[string]finding{}
	for _, f := range loadFindings() {
		if f.Property == p.ID && f.Status == "open" {
			known[f.Key] = f
		}
	}
	rdir := filepath.Join(outRoot(), "replays", p.ID)
	os.RemoveAll(rdir)
	newViol := 0
	knownSeen := 0
	var violKeys []map[string]interface{}
	for _, key := range a.violOrder {
		r := a.viols[key]
		if f, ok := known[key]; ok {
			knownSeen++
			fmt.Printf("KNOWN-FINDING: property=%s %s — %s (seen %d×)\n", p.ID, key, f.What, a.violCount[key])
			violKeys = append(violKeys, map[string]interface{}{"key": key, "count": a.violCount[key], "known_finding": true})
			continue
		}
		newViol++
		violKeys = append(violKeys, map[string]interface{}{"key": key, "count": a.violCount[key], "known_finding": false})
		if newViol <= 20 {
			os.MkdirAll(rdir, 0755)
			path := filepath.Join(rdir, fmt.Sprintf("%d.json", newViol))
			doc := map[string]interface{}{"property": p.ID, "tier": ctx.Tier, "seed": ctx.Seed, "index": r.I, "key": key,
				"input": r.Input, "detail": r.Detail, "count": a.violCount[key]}
			b, _ := json.MarshalIndent(doc, "", " ")
			os.WriteFile(path, b, 0644)
			fmt.Printf("VIOLATION property=%s replay=%s\n", p.ID, path)
			fmt.Printf("  key: %s  (%d cases)\n  input: %s\n  detail: %s\n", key, a.violCount[key], core.Trunc(oneLine(r.Input), 400), core.Trunc(oneLine(r.Detail), 600))
		}
	}
	broken := []string{}
	for _, e := range p.MustSee {
		if a.events[e] == 0 {
			broken = append(broken, e)
		}
	}
	if a.cases < ncases {
		broken = append(broken, fmt.Sprintf("only %d of %d cases reported", a.cases, ncases))
	}
	inconPct := 0.0
	if a.cases > 0 {
		inconPct = 100 * float64(a.inconCases) / float64(a.cases)
	}
	cov := map[string]interface{}{
		"evaluations":            a.evals,
		"cases":                  a.cases,
		"distinct_nontrivial":    len(a.hashes),
		"rule":                   p.Rule,
		"samples":                a.samples,
		"monitor_events":         a.events,
		"held_cases":             a.heldCases,
		"inconclusive_cases":     a.inconCases,
		"inconclusive_by_reason": a.incon,
		"inconclusive_pct":       inconPct,
		"violation_classes":      violKeys,
		"known_findings_seen":    knownSeen,
		"exhaustive":             p.Exhaustive != nil && p.Exhaustive(ctx),
		"jobs":                   16,
	}
	if len(a.samples) == 0 {
		cov["samples"] = []string{}
	}
	if san != nil {
		cov["sanitizer_pass"] = san
	}
	if inconPct > 2 {
		cov["flag"] = "more than 2% of the cases were inconclusive"
	}
	ev := map[string]interface{}{
		"property_id": p.ID, "tier": ctx.Tier, "seed": ctx.Seed, "level": p.Level,
		"coverage": cov, "assumptions": p.Assumptions, "wall_s": wall, "violations": newViol,
	}
	b, _ := json.MarshalIndent(ev, "", " ")
	os.MkdirAll(filepath.Join(outRoot(), "evidence"), 0755)
	os.WriteFile(filepath.Join(outRoot(), "evidence", p.ID+".json"), b, 0644)

	evNames := []string{}
	for k := range a.events {
		evNames = append(evNames, k)
	}
	sort.Strings(evNames)
	var evs []string
	for _, k := range evNames {
		evs = append(evs, fmt.Sprintf("%s=%d", k, a.events[k]))
	}
	fmt.Printf("%s %s seed=%d: cases=%d evaluations=%d distinct_nontrivial=%d held=%d inconclusive=%d new_violation_classes=%d known=%d wall=%.1fs\n  observed: %s\n",
		p.ID, ctx.Tier, ctx.Seed, a.cases, a.evals, len(a.hashes), a.heldCases, a.inconCases, newViol, knownSeen, wall, strings.Join(evs, " "))
	if len(a.incon) > 0 {
		fmt.Printf("  inconclusive by reason: %v  e.g. %v\n", a.incon, a.inconEx)
	}
	if newViol > 0 {
		return 1
	}
	if len(broken) > 0 {
		fmt.Printf("BROKEN-CHECK property=%s: the monitors observed nothing for: %s\n", p.ID, strings.Join(broken, ", "))
		return 2
	}
	return 0
}

func oneLine(s string) string { return strings.ReplaceAll(s, "\n", "⏎") }

func replayMain(self string, p *core.Prop, ctx *core.Ctx, path string) int {
	b, err := os.ReadFile(path)
	if err != nil {
		fmt.Fprintln(os.Stderr, err)
		return 2
	}
	var doc struct {
		Tier  string
		Seed  uint64
		Index int
	}
	if err := json.Unmarshal(b, &doc); err != nil {
		fmt.Fprintln(os.Stderr, err)
		return 2
	}
	ctx.Tier, ctx.Seed, ctx.Thor = doc.Tier, doc.Seed, doc.Tier == "thorough"
	wdir := filepath.Join(ctx.Work, "replay")
	os.MkdirAll(wdir, 0755)
	res, begun, out, exit := runChild(self, p, ctx, doc.Index, doc.Index+1, 1, filepath.Join(wdir, "journal"), wdir, true)
	if len(res) == 0 {
		key, detail := classifyDeath(out, exit)
		fmt.Printf("replay of case %d: child died (begun=%d): %s\n%s\n", doc.Index, begun, key, detail)
		fmt.Printf("VIOLATION property=%s replay=%s\n", p.ID, path)
		return 1
	}
	r := res[0]
	fmt.Printf("replay of %s case %d (tier %s seed %d): verdict=%s key=%s\ninput:\n%s\ndetail:\n%s\n", p.ID, doc.Index, doc.Tier, doc.Seed, r.Verdict, r.Key, r.Input, r.Detail)
	for _, m := range r.More {
		fmt.Printf("also: key=%s\n  %s\n", m.Key, m.Detail)
	}
	if r.Verdict == core.Violated {
		fmt.Printf("VIOLATION property=%s replay=%s\n", p.ID, path)
		return 1
	}
	return 0
}
