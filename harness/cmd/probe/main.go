// probe: evaluate each argument (or stdin lines) in one interpreter and print results.
package main

import (
	"bufio"
	"fmt"
	"os"

	"github.com/glycerine/zygomys/v9/zygo"
	"zyverif/props"
	"zyverif/sut"
)

func main() {
	env := zygo.NewZlisp()
	args := os.Args[1:]
	if len(args) > 0 && args[0] == "-bare" {
		args = args[1:]
	} else if len(args) > 0 && args[0] == "-sandbox" {
		env = zygo.NewZlispSandbox()
		env.StandardSetup()
		args = args[1:]
	} else {
		env.StandardSetup()
	}
	sr := props.NewSutRun(false)
	sr.Env = env
	props.AddHostFuncs(sr)
	run := func(t string) {
		o := sut.Eval(env, t+"\n", 0)
		if len(sr.Trace) > 0 {
			fmt.Printf("   trace: %v\n", sr.Trace)
			sr.Trace = nil
		}
		switch {
		case o.Panic != "":
			fmt.Printf("%-50s => PANIC %s @%s\n", t, o.Panic, o.Site)
		case o.Err != nil:
			fmt.Printf("%-50s => ERR %s\n", t, o.ErrLine())
		default:
			fmt.Printf("%-50s => %s   [%s] %v\n", t, o.Val.SexpString(nil), sut.Show(o.Val), sut.DepthsOf(env))
		}
	}
	if len(args) == 0 {
		sc := bufio.NewScanner(os.Stdin)
		for sc.Scan() {
			run(sc.Text())
		}
		return
	}
	for _, a := range args {
		run(a)
	}
}
