package main

import (
	"fmt"
	"github.com/glycerine/zygomys/v9/zygo"
	"os"
)

func main() {
	env := zygo.NewZlisp()
	for _, a := range os.Args[1:] {
		v, err := env.EvalString(a + "\n")
		if err != nil {
			fmt.Println("ERR:", err)
		} else {
			fmt.Println(v.SexpString(nil))
		}
	}
}
