package main

import (
	"fmt"

	"github.com/glycerine/zygomys/v9/zygo"
)

func main() {
	env := zygo.NewZlisp()
	env.StandardSetup()
	_, err := env.EvalString("(defn f [x] (+ x 1))\n")
	fmt.Println("def:", err)
	fn, _ := env.FindObject("f")
	v, err := env.Apply(fn.(*zygo.SexpFunction), []zygo.Sexp{&zygo.SexpInt{Val: 4}})
	fmt.Println("apply:", v.SexpString(nil), err)
	v, err = env.EvalString("(+ 1 2)\n")
	fmt.Println("eval after apply:", v.SexpString(nil), err)
	v, err = env.EvalString("(+ 1 2)\n")
	fmt.Println("eval again:", v.SexpString(nil), err)
}
