package lang

import (
	"fmt"

	"zyverif/core"
)

// Cfg selects the fragment a generator instance emits.
type Cfg struct {
	Depth       int
	Pool        []string // integer variable names
	Data        bool     // strings, arrays, lists, hashes, map/apply
	Lazy        bool     // lazy formals + force
	Inj         bool     // (inj id) fault points
	Try         bool     // (try (fn [] …)) error-absorbing host callback
	HigherOrder bool     // closures as arguments / return values
	Variadic    bool
	TrOneIn     int  // wrap a sub-expression in (tr id …) with probability 1/TrOneIn (0 = never)
	MaxStmts    int  // statements per body (default 3)
	RetCloOneIn int  // a defn returns a closure with probability 1/RetCloOneIn (default 4)
	Recursion   bool // self-recursive defn with a decreasing counter (tail and non-tail)
	Alias       bool // (def gN fK) aliases
	Subst       bool // (str (substitute #x)) on lazy formals
	Canary      bool // inside functions, sometimes read a pool name that is not lexically visible (dynamic-scope canary)
}

type G struct {
	R   *core.Rng
	C   Cfg
	trn int64
	fnn int
	// statistics for the non-triviality rules
	TopFns                                                                                   []FnSig
	NCanary                                                                                  int
	NRec, NTailRec, NAlias, NSubst, NSelfAnywhere                                            int
	NClosures, NShadow, NLoops, NBreaks, NLazyParams, NForce, NVariadic, NInj, NTry, NHigher int
}

type fnsig struct {
	name string
	n    int
	vr   bool
	ret  int // 0: returns int; k>0: returns a closure of arity k-1
	lazy []bool
	clo  []bool // parameter i is a closure of arity 1
	rec  bool   // first parameter is the recursion counter
}

// FnSig is the exported view of a global function signature.
type FnSig struct {
	Name     string
	N        int
	Variadic bool
	RetClo   bool
	Lazy     []bool
	Clo      []bool
}

type sc struct {
	ints, strs, arrs, lsts, hashes []string
	lazy                           []string
	fns                            []fnsig
	loops                          []string
	loopVars                       []string // loop variables of enclosing loops (not assigned in bodies: keeps loops finite)
	inFn                           bool
	inLoop                         bool   // lexically inside a for body of the current function
	self                           *fnsig // the enclosing recursive function (counter n visible), nil otherwise
	selfLeft                       *int   // remaining budget of extra self-call sites
	selfOften                      bool
}

func (s *sc) clone() *sc {
	c := *s
	c.ints = append([]string{}, s.ints...)
	c.strs = append([]string{}, s.strs...)
	c.arrs = append([]string{}, s.arrs...)
	c.lsts = append([]string{}, s.lsts...)
	c.hashes = append([]string{}, s.hashes...)
	c.lazy = append([]string{}, s.lazy...)
	c.fns = append([]fnsig{}, s.fns...)
	c.loops = append([]string{}, s.loops...)
	c.loopVars = append([]string{}, s.loopVars...)
	return &c
}

func contains(a []string, s string) bool {
	for _, x := range a {
		if x == s {
			return true
		}
	}
	return false
}
func appendU(a []string, s string) []string {
	if contains(a, s) {
		return a
	}
	return append(a, s)
}

func (g *G) r(n int) int { return g.R.N(n) }

func (g *G) tr(n *N) *N {
	if g.C.TrOneIn > 0 && g.r(g.C.TrOneIn) == 0 {
		g.trn++
		return &N{K: "tr", I: g.trn, A: []*N{n}}
	}
	return n
}

func (g *G) pool() string { return g.C.Pool[g.r(len(g.C.Pool))] }

var intPool = []int64{0, 1, -1, 2, 3, 5, 7, -2, 10}

func (g *G) lit() *N { return Int(intPool[g.r(len(intPool))]) }

// Program generates a list of top-level forms whose last one is an int expression.
func (g *G) Program() []*N {
	top := &sc{}
	prog := g.stmts(top, g.C.Depth, true)
	for _, f := range top.fns {
		g.TopFns = append(g.TopFns, FnSig{f.name, f.n, f.vr, f.ret != 0, f.lazy, f.clo})
	}
	return prog
}

// BatteryCall builds a call of global function f with integer arguments
// (closure parameters get (fn [a] (+ a 1))); a returned closure is applied too.
func BatteryCall(f FnSig, arg int64) *N {
	a := []*N{Var(f.Name)}
	n := f.N
	if f.Variadic {
		n = f.N + 1
	}
	for i := 0; i < n; i++ {
		if i < len(f.Clo) && f.Clo[i] {
			a = append(a, &N{K: "fn", Ps: []string{"a"}, A: []*N{Call("+", Var("a"), Int(1))}})
			continue
		}
		a = append(a, Int(arg+int64(i)))
	}
	call := &N{K: "app", A: a}
	if f.RetClo {
		return App(call, Int(arg+7))
	}
	return call
}

// arg: the scope as seen from a function-call argument position. zygomys
// compiles call arguments at run time, so break/continue cannot target a loop
// outside the argument (language restriction: "(break) found but not inside a
// loop"); loops opened inside the argument are fine.
func (s *sc) arg() *sc {
	if len(s.loops) == 0 {
		return s
	}
	c := s.clone()
	c.loops = nil
	return c
}

func (g *G) intE(s *sc, d int) *N {
	if g.C.TrOneIn > 0 && g.r(g.C.TrOneIn) == 0 {
		g.trn++
		id := g.trn
		return &N{K: "tr", I: id, A: []*N{g.intE0(s.arg(), d)}}
	}
	return g.intE0(s, d)
}

func (g *G) intE0(s *sc, d int) *N {
	if s.self != nil && *s.selfLeft > 0 && d > 0 && (g.r(6) == 0 || (s.selfOften && g.r(3) == 0)) {
		// a guarded self call at an arbitrary (generally non-tail) position
		*s.selfLeft--
		f := s.self
		self := []*N{Var(f.name), Call("-", Var("n"), Int(1))}
		for i := 1; i < f.n; i++ {
			if f.clo[i] {
				self = append(self, g.cloE(s.arg(), d-1))
			} else {
				self = append(self, g.intE(s.arg(), d-1))
			}
		}
		g.NSelfAnywhere++
		return &N{K: "cond", A: []*N{Call("<=", Var("n"), Int(0)), g.lit(), &N{K: "app", A: self}}}
	}
	if d <= 0 || g.r(4) == 0 {
		if g.C.Canary && s.inFn && g.r(10) == 0 {
			p := g.pool()
			if !contains(s.ints, p) {
				g.NCanary++
			}
			if g.C.Try && g.r(2) == 0 {
				return &N{K: "try", A: []*N{Var(p)}}
			}
			return Var(p)
		}
		if len(s.ints) > 0 && g.r(2) == 0 {
			return (Var(s.ints[g.r(len(s.ints))]))
		}
		if g.C.Inj && g.r(4) == 0 {
			g.trn++
			g.NInj++
			return &N{K: "inj", I: g.trn}
		}
		if len(s.lazy) > 0 && g.r(2) == 0 {
			if g.C.Subst && g.r(4) == 0 {
				g.NSubst++
				return Call("len", &N{K: "subst", S: s.lazy[g.r(len(s.lazy))]})
			}
			g.NForce++
			return (&N{K: "force", S: s.lazy[g.r(len(s.lazy))]})
		}
		return (g.lit())
	}
	top := 12
	if g.C.Data {
		top = 18
	}
	switch g.r(top) {
	case 0, 1, 2:
		if g.r(12) == 0 { // integer power with small literal operands (negative exponents included)
			base := []int64{-3, -2, -1, 1, 2, 3}[g.r(6)]
			return &N{K: "call", S: "**", A: []*N{Int(base), Int(int64(g.r(9) - 3))}}
		}
		op := []string{"+", "-", "*"}[g.r(3)]
		n := 2 + g.r(2)
		a := []*N{}
		for i := 0; i < n; i++ {
			a = append(a, g.intE(s.arg(), d-1))
		}
		return (&N{K: "call", S: op, A: a})
	case 3:
		return (&N{K: "cond", A: []*N{g.boolE(s, d-1), g.intE(s, d-1), g.intE(s, d-1)}})
	case 4:
		k := g.r(4) // 0..3 extra arms
		a := []*N{}
		for i := 0; i <= k; i++ {
			a = append(a, g.boolE(s, d-1), g.intE(s, d-1))
		}
		a = append(a, g.intE(s, d-1))
		return (&N{K: "cond", A: a})
	case 5: // let / letseq
		k := g.r(2) + 1
		n := &N{K: []string{"let", "letseq"}[g.r(2)]}
		ns := s.clone()
		binds := []*N{}
		for i := 0; i < k; i++ {
			p := g.pool()
			if contains(n.Ps, p) {
				continue
			}
			if contains(s.ints, p) {
				g.NShadow++
			}
			n.Ps = append(n.Ps, p)
			if n.K == "letseq" {
				binds = append(binds, g.intE(ns, d-1))
				ns.ints = appendU(ns.ints, p)
			} else {
				binds = append(binds, g.intE(s, d-1))
			}
		}
		for _, p := range n.Ps {
			ns.ints = appendU(ns.ints, p)
		}
		n.A = append(binds, g.stmts(ns, d-1, true)...)
		return n
	case 6: // begin / newScope with statements
		if g.r(2) == 0 {
			return &N{K: "begin", A: g.stmts(s, d-1, true)} // defs in begin land in the enclosing scope
		}
		return &N{K: "newscope", A: g.stmts(s.clone(), d-1, true)}
	case 7:
		if len(s.ints) > 0 {
			v := s.ints[g.r(len(s.ints))]
			if contains(s.loopVars, v) {
				return g.intE(s, d-1)
			}
			return (&N{K: "set", S: v, A: []*N{g.intE(s, d-1)}})
		}
		return g.intE(s, d-1)
	case 8, 9: // call a known function that returns an int
		if n := g.callFn(s, d, 0); n != nil {
			return (n)
		}
		return g.intE(s, d-1)
	case 10: // immediate lambda
		np := g.r(3)
		fn := &N{K: "fn"}
		ns := s.clone()
		ns.loops = nil
		ns.inLoop = false
		ns.inFn = true
		ns.self = nil
		for i := 0; i < np; i++ {
			p := g.pool()
			if contains(fn.Ps, p) {
				continue
			}
			if contains(s.ints, p) {
				g.NShadow++
			}
			fn.Ps = append(fn.Ps, p)
			ns.ints = appendU(ns.ints, p)
		}
		fn.A = g.stmts(ns, d-1, true)
		g.NClosures++
		a := []*N{fn}
		for range fn.Ps {
			a = append(a, g.intE(s.arg(), d-1))
		}
		return (&N{K: "app", A: a})
	case 11:
		if g.C.Try && g.r(2) == 0 {
			g.NTry++
			ns := s.clone()
			ns.loops = nil
			ns.inLoop = false
			return (&N{K: "try", A: g.stmts(ns, d-1, true)})
		}
		k := []string{"and", "or"}[g.r(2)]
		n := 1 + g.r(4)
		a := []*N{}
		for i := 0; i < n; i++ {
			a = append(a, g.intE(s, d-1))
		}
		return (&N{K: k, A: a})
	case 12:
		return (Call("len", g.dataE(s.arg(), d-1, g.r(3))))
	case 13:
		return (Call("aget", g.arrE(s.arg(), d-1), Int(int64(g.r(3)))))
	case 14:
		return (Call("first", g.lstE(s.arg(), d-1)))
	case 15:
		if g.r(2) == 0 {
			return (Call("apply", Var("+"), Call("cons", g.intE(s.arg(), d-1), g.lstE(s.arg(), d-1))))
		}
		return (Call("apply", Var("+"), g.arrLit(s.arg(), d-1, 1)))
	case 16:
		if len(s.hashes) > 0 {
			h := s.hashes[g.r(len(s.hashes))]
			return (Call("hget", Var(h), &N{K: "sym", S: []string{"p", "q", "w"}[g.r(3)]}, g.intE(s.arg(), d-1)))
		}
		return (Call("hget", g.hashLit(s.arg(), d-1), &N{K: "sym", S: []string{"p", "q"}[g.r(2)]}, g.lit()))
	case 17: // higher-order call through a computed callee
		if n := g.callFn(s, d, 2); n != nil {
			// ((mk x) y): the callee is a compound expression
			return (App(n, g.intE(s.arg(), d-1)))
		}
		return g.intE(s, d-1)
	}
	return g.intE(s, 0)
}

// callFn builds a call of a visible function whose result kind is ret
// (0 int, 2 closure of arity 1); nil if none is visible.
func (g *G) callFn(s0 *sc, d int, ret int) *N {
	s := s0.arg()
	var cands []fnsig
	for _, f := range s.fns {
		if f.ret == ret {
			cands = append(cands, f)
		}
	}
	if len(cands) == 0 {
		return nil
	}
	f := cands[g.r(len(cands))]
	n := f.n
	if f.vr {
		n = f.n - 1 + g.r(4)
	}
	a := []*N{Var(f.name)}
	for i := 0; i < n; i++ {
		if i == 0 && f.rec {
			a = append(a, Int(int64(g.r(4))))
			continue
		}
		if i < len(f.clo) && f.clo[i] {
			a = append(a, g.cloE(s, d-1))
			continue
		}
		a = append(a, g.intE(s, d-1))
	}
	return &N{K: "app", A: a}
}

// cloE: an expression whose value is a closure of arity 1 returning an int.
func (g *G) cloE(s *sc, d int) *N {
	var cands []string
	for _, f := range s.fns {
		if f.n == 1 && !f.vr && f.ret == 0 && !f.rec && (g.C.Lazy || len(f.lazy) == 0 || !f.lazy[0]) && (len(f.clo) == 0 || !f.clo[0]) {
			cands = append(cands, f.name)
		}
	}
	if len(cands) > 0 && g.r(2) == 0 {
		return Var(cands[g.r(len(cands))])
	}
	if d > 0 && g.r(3) == 0 {
		if n := g.callFn(s, d, 2); n != nil {
			return n
		}
	}
	return g.lambda1(s, d)
}

func (g *G) lambda1(s *sc, d int) *N {
	p := g.pool()
	if contains(s.ints, p) {
		g.NShadow++
	}
	ns := s.clone()
	ns.loops = nil
	ns.lazy = nil
	ns.inFn = true
	ns.self = nil
	g.NClosures++
	if g.C.Lazy && g.r(3) == 0 {
		ns.lazy = appendU(ns.lazy, "#"+p)
		g.NLazyParams++
		return &N{K: "fn", Ps: []string{"#" + p}, A: g.stmts(ns, d-1, true)}
	}
	ns.ints = appendU(ns.ints, p)
	return &N{K: "fn", Ps: []string{p}, A: g.stmts(ns, d-1, true)}
}

func (g *G) boolE(s *sc, d int) *N {
	if g.C.TrOneIn > 0 && g.r(g.C.TrOneIn+1) == 0 {
		g.trn++
		id := g.trn
		return &N{K: "tr", I: id, A: []*N{g.boolE0(s.arg(), d)}}
	}
	return g.boolE0(s, d)
}

func (g *G) boolE0(s *sc, d int) *N {
	if d <= 0 || g.r(3) == 0 {
		return (&N{K: "call", S: []string{"<", ">", "<=", ">=", "==", "!="}[g.r(6)], A: []*N{g.intE(s.arg(), d-1), g.intE(s.arg(), d-1)}})
	}
	switch g.r(5) {
	case 0:
		return Call("not", g.boolE(s.arg(), d-1))
	case 1:
		return (&N{K: "and", A: []*N{g.boolE(s, d-1), g.boolE(s, d-1)}})
	case 2:
		return (&N{K: "or", A: []*N{g.boolE(s, d-1), g.boolE(s, d-1)}})
	case 3:
		return g.intE(s, d-1) // integers are conditions too (0 is falsy)
	}
	return &N{K: "bool", B: g.r(2) == 0}
}

// ---- data expressions (Cfg.Data) ----

var strPool = []string{"", "a", "xyz", "q r", "A-b"}

func (g *G) dataE(s *sc, d int, kind int) *N {
	switch kind {
	case 0:
		return g.strE(s, d)
	case 1:
		return g.arrE(s, d)
	}
	return g.lstE(s, d)
}

func (g *G) strE(s *sc, d int) *N {
	if g.C.TrOneIn > 0 && g.r(g.C.TrOneIn+1) == 0 {
		g.trn++
		id := g.trn
		return &N{K: "tr", I: id, A: []*N{g.strE0(s.arg(), d)}}
	}
	return g.strE0(s, d)
}

func (g *G) strE0(s *sc, d int) *N {
	s = s.arg()
	if d <= 0 || g.r(3) == 0 {
		if len(s.strs) > 0 && g.r(2) == 0 {
			return (Var(s.strs[g.r(len(s.strs))]))
		}
		return &N{K: "str", S: strPool[g.r(len(strPool))]}
	}
	if g.r(3) == 0 {
		return (Call("str", g.intE(s, d-1)))
	}
	return (Call("concat", g.strE(s, d-1), g.strE(s, d-1)))
}

func (g *G) arrLit(s *sc, d int, min int) *N {
	n := min + g.r(3)
	a := []*N{}
	for i := 0; i < n; i++ {
		a = append(a, g.intE(s, d-1))
	}
	return &N{K: "arr", A: a}
}

func (g *G) arrE(s *sc, d int) *N {
	if g.C.TrOneIn > 0 && g.r(g.C.TrOneIn+1) == 0 {
		g.trn++
		id := g.trn
		return &N{K: "tr", I: id, A: []*N{g.arrE0(s.arg(), d)}}
	}
	return g.arrE0(s, d)
}

func (g *G) arrE0(s *sc, d int) *N {
	s = s.arg()
	if d <= 0 || g.r(3) == 0 {
		if len(s.arrs) > 0 && g.r(2) == 0 {
			return (Var(s.arrs[g.r(len(s.arrs))]))
		}
		return g.arrLit(s, d, 0)
	}
	switch g.r(4) {
	case 0:
		return (Call("append", g.arrE(s, d-1), g.intE(s, d-1)))
	case 1:
		return (Call("concat", g.arrE(s, d-1), g.arrE(s, d-1)))
	case 2:
		return (Call("map", g.cloE(s, d-1), g.arrE(s, d-1)))
	}
	return g.arrLit(s, d, 1)
}

func (g *G) lstE(s *sc, d int) *N {
	if g.C.TrOneIn > 0 && g.r(g.C.TrOneIn+1) == 0 {
		g.trn++
		id := g.trn
		return &N{K: "tr", I: id, A: []*N{g.lstE0(s.arg(), d)}}
	}
	return g.lstE0(s, d)
}

func (g *G) lstE0(s *sc, d int) *N {
	s = s.arg()
	if d <= 0 || g.r(3) == 0 {
		if len(s.lsts) > 0 && g.r(2) == 0 {
			return (Var(s.lsts[g.r(len(s.lsts))]))
		}
		n := 1 + g.r(3)
		a := []*N{}
		for i := 0; i < n; i++ {
			a = append(a, g.intE(s, d-1))
		}
		return Call("list", a...)
	}
	switch g.r(3) {
	case 0:
		return (Call("cons", g.intE(s, d-1), g.lstE(s, d-1)))
	case 1:
		return (Call("map", g.cloE(s, d-1), g.lstE(s, d-1)))
	}
	return Call("list", g.intE(s, d-1), g.intE(s, d-1))
}

func (g *G) hashLit(s *sc, d int) *N {
	s = s.arg()
	a := []*N{}
	for _, k := range []string{"p", "q"} {
		if g.r(3) > 0 {
			a = append(a, &N{K: "sym", S: k}, g.intE(s, d-1))
		}
	}
	return Call("hash", a...)
}

// ---- statements ----

func (g *G) stmts(s *sc, d int, wantInt bool) []*N {
	out := []*N{}
	max := g.C.MaxStmts
	if max == 0 {
		max = 3
	}
	k := g.r(max)
	for i := 0; i < k; i++ {
		out = append(out, g.stmt(s, d))
	}
	if wantInt {
		out = append(out, g.intE(s, d))
	}
	return out
}

func (g *G) fnParams(fn *N, s, ns *sc, sig *fnsig, allowLazy bool) {
	np := g.r(3)
	for i := 0; i < np; i++ {
		if g.C.HigherOrder && g.r(5) == 0 {
			nm := fmt.Sprintf("k%d", len(fn.Ps))
			fn.Ps = append(fn.Ps, nm)
			sig.clo = append(sig.clo, true)
			sig.lazy = append(sig.lazy, false)
			ns.fns = append(ns.fns, fnsig{name: nm, n: 1})
			g.NHigher++
			continue
		}
		p := g.pool()
		if contains(fn.Ps, p) || contains(fn.Ps, "#"+p) {
			continue
		}
		if contains(s.ints, p) {
			g.NShadow++
		}
		if allowLazy && g.C.Lazy && g.r(2) == 0 {
			fn.Ps = append(fn.Ps, "#"+p)
			ns.lazy = appendU(ns.lazy, "#"+p)
			sig.clo = append(sig.clo, false)
			sig.lazy = append(sig.lazy, true)
			g.NLazyParams++
			continue
		}
		fn.Ps = append(fn.Ps, p)
		ns.ints = appendU(ns.ints, p)
		sig.clo = append(sig.clo, false)
		sig.lazy = append(sig.lazy, false)
	}
	if g.C.Variadic && g.r(4) == 0 {
		fn.Ps = append(fn.Ps, "r")
		fn.Var = true
		ns.lsts = appendU(ns.lsts, "r")
		sig.clo = append(sig.clo, false)
		sig.lazy = append(sig.lazy, false)
		g.NVariadic++
	}
}

func (g *G) stmt(s *sc, d int) *N {
	if d <= 0 {
		return g.intE(s, 0)
	}
	top := 8
	if g.C.Data {
		top = 11
	}
	switch g.r(top) {
	case 0, 1: // def int
		p := g.pool()
		if contains(s.loopVars, p) {
			return g.intE(s, d-1)
		}
		n := &N{K: "def", S: p, A: []*N{g.intE(s, d-1)}}
		s.ints = appendU(s.ints, p)
		return n
	case 2: // defn
		g.fnn++
		name := fmt.Sprintf("f%d", g.fnn)
		fn := &N{K: "defn", S: name}
		ns := s.clone()
		ns.loops = nil
		ns.inLoop = false
		ns.inFn = true
		ns.self = nil
		sig := fnsig{name: name}
		if g.C.Recursion && g.r(3) == 0 {
			fn.Ps = []string{"n"}
			sig.clo, sig.lazy, sig.rec = []bool{false}, []bool{false}, true
			g.fnParams(fn, s, ns, &sig, true)
			if fn.Var { // keep recursive functions fixed-arity
				fn.Var = false
				fn.Ps = fn.Ps[:len(fn.Ps)-1]
				sig.clo, sig.lazy = sig.clo[:len(fn.Ps)], sig.lazy[:len(fn.Ps)]
				g.NVariadic--
			}
			sig.name, sig.n = name, len(fn.Ps)
			left := 2
			selfSig := sig
			ns.self, ns.selfLeft = &selfSig, &left
			self := []*N{Var(name), Call("-", Var("n"), Int(1))}
			for i := 1; i < len(fn.Ps); i++ {
				if sig.clo[i] {
					self = append(self, Var(fn.Ps[i]))
				} else {
					self = append(self, g.intE(ns.arg(), d-2))
				}
			}
			var rec *N = &N{K: "app", A: self}
			g.NRec++
			switch g.r(6) {
			case 0:
				rec = Call("+", g.intE(ns.arg(), d-2), rec) // non-tail
			case 1:
				rec = &N{K: "let", Ps: []string{g.pool()}, A: []*N{g.intE(ns, d-2), rec}}
				g.NTailRec++
			case 2:
				rec = &N{K: "begin", A: []*N{g.intE(ns, d-2), rec}}
				g.NTailRec++
			case 3:
				rec = &N{K: "and", A: []*N{Int(1), rec}}
				g.NTailRec++
			default:
				g.NTailRec++
			}
			body := g.stmts(ns, d-2, false)
			body = append(g.strictProbes(fn), body...)
			if g.r(2) == 0 {
				// free-form: the last expression is arbitrary, with guarded self
				// calls wherever the generator puts them (tail or not)
				left = 3
				ns.selfOften = true
				fn.A = append(body, g.tailCtx(ns, d-1, 1+g.r(3)))
			} else {
				fn.A = append(body, &N{K: "cond", A: []*N{Call("<=", Var("n"), Int(0)), g.intE(ns, d-2), rec}})
			}
			sig.n = len(fn.Ps)
			g.NClosures++
			s.fns = append(s.fns, sig)
			return fn
		}
		g.fnParams(fn, s, ns, &sig, true)
		if g.C.HigherOrder && g.r(max(g.C.RetCloOneIn, 2)+2*btoi(g.C.RetCloOneIn == 0)) == 0 {
			// returns a closure of arity 1 that captures this activation
			sig.ret = 2
			body := g.stmts(ns, d-1, false)
			fn.A = append(body, g.lambda1(ns, d-1))
		} else {
			fn.A = g.stmts(ns, d-1, true)
		}
		fn.A = append(g.strictProbes(fn), fn.A...)
		sig.n, sig.vr = len(fn.Ps), fn.Var
		g.NClosures++
		s.fns = append(s.fns, sig)
		return fn
	case 3: // def closure variable
		g.fnn++
		name := fmt.Sprintf("g%d", g.fnn)
		if g.C.Alias && len(s.fns) > 0 && g.r(3) == 0 {
			f := s.fns[g.r(len(s.fns))]
			if f.name[0] == 'f' || f.name[0] == 'g' {
				g.NAlias++
				al := f
				al.name = name
				s.fns = append(s.fns, al)
				return &N{K: "def", S: name, A: []*N{Var(f.name)}}
			}
		}
		fn := &N{K: "fn"}
		ns := s.clone()
		ns.loops = nil
		ns.inLoop = false
		ns.inFn = true
		ns.self = nil
		sig := fnsig{name: name}
		g.fnParams(fn, s, ns, &sig, true)
		fn.A = g.stmts(ns, d-1, true)
		sig.n, sig.vr = len(fn.Ps), fn.Var
		g.NClosures++
		s.fns = append(s.fns, sig)
		return &N{K: "def", S: name, A: []*N{fn}}
	case 4, 5: // for loop
		lv := g.pool()
		lab := ""
		if g.r(2) == 0 {
			lab = fmt.Sprintf("L%d", g.r(1000))
		}
		ns := s.clone()
		if contains(s.ints, lv) {
			g.NShadow++
		}
		ns.ints = appendU(ns.ints, lv)
		ns.loops = append(ns.loops, lab)
		ns.loopVars = appendU(ns.loopVars, lv)
		ns.inLoop = true
		g.NLoops++
		body := []*N{}
		nb := 1 + g.r(3)
		for i := 0; i < nb; i++ {
			if g.r(3) == 0 {
				target := ns.loops[g.r(len(ns.loops))]
				bc := &N{K: []string{"break", "continue"}[g.r(2)], S: target}
				g.NBreaks++
				var wrapped *N = bc
				switch g.r(4) { // break/continue below let / newScope inside cond
				case 0:
					wrapped = &N{K: []string{"let", "letseq"}[g.r(2)], Ps: []string{g.pool()}, A: []*N{g.lit(), bc}}
				case 1:
					wrapped = &N{K: "newscope", A: []*N{bc}}
				}
				switch g.r(6) { // the form that carries the jump: cond arm, final / non-final and/or operand, cond predicate
				case 0:
					body = append(body, &N{K: "and", A: []*N{g.boolE(ns, d-2), wrapped}})
				case 1:
					body = append(body, &N{K: "and", A: []*N{g.boolE(ns, d-2), wrapped, Int(7)}})
				case 2:
					body = append(body, &N{K: "or", A: []*N{g.boolE(ns, d-2), wrapped, Int(7)}})
				case 3:
					body = append(body, &N{K: "cond", A: []*N{{K: "and", A: []*N{g.boolE(ns, d-2), wrapped}}, Int(1), Int(2)}})
				default:
					body = append(body, &N{K: "cond", A: []*N{g.boolE(ns, d-2), wrapped, {K: "nil"}}})
				}
			} else {
				body = append(body, g.stmt(ns, d-1))
			}
		}
		init := &N{K: "def", S: lv, A: []*N{Int(0)}}
		test := Call("<", Var(lv), Int(int64(1+g.r(3))))
		adv := &N{K: "def", S: lv, A: []*N{Call("+", Var(lv), Int(1))}}
		return &N{K: "for", S: lab, A: append([]*N{init, test, adv}, body...)}
	case 6:
		if len(s.ints) > 0 {
			v := s.ints[g.r(len(s.ints))]
			if contains(s.loopVars, v) {
				return g.intE(s, d-1)
			}
			return &N{K: "set", S: v, A: []*N{g.intE(s, d-1)}}
		}
	case 7: // re-point an existing closure variable at a closure made here (escapes this activation)
		var cands []fnsig
		for _, f := range s.fns {
			if f.name[0] == 'g' && !f.vr && f.ret == 0 && !anyTrue(f.lazy) && !anyTrue(f.clo) {
				cands = append(cands, f)
			}
		}
		if len(cands) > 0 {
			f := cands[g.r(len(cands))]
			fn := &N{K: "fn"}
			ns := s.clone()
			ns.loops = nil
			ns.inLoop = false
			ns.inFn = true
			ns.self = nil
			for len(fn.Ps) < f.n {
				p := g.pool()
				if contains(fn.Ps, p) {
					p = fmt.Sprintf("%s%d", p, len(fn.Ps))
				}
				if contains(s.ints, p) {
					g.NShadow++
				}
				fn.Ps = append(fn.Ps, p)
				ns.ints = appendU(ns.ints, p)
			}
			fn.A = g.stmts(ns, d-1, true)
			g.NClosures++
			return &N{K: "set", S: f.name, A: []*N{fn}}
		}
	case 8: // data definitions (fresh name per site and never in a loop body:
		// re-def of a name in the same scope is subject to the value-type rule of
		// BindSymbol, which is by design and not modelled)
		if s.inLoop {
			return g.intE(s, d-1)
		}
		g.fnn++
		switch g.r(4) {
		case 0:
			nm := fmt.Sprintf("s%d", g.fnn)
			n := &N{K: "def", S: nm, A: []*N{g.strE(s, d-1)}}
			s.strs = appendU(s.strs, nm)
			return n
		case 1:
			nm := fmt.Sprintf("u%d", g.fnn)
			n := &N{K: "def", S: nm, A: []*N{g.arrE(s, d-1)}}
			s.arrs = appendU(s.arrs, nm)
			return n
		case 2:
			nm := fmt.Sprintf("l%d", g.fnn)
			n := &N{K: "def", S: nm, A: []*N{g.lstE(s, d-1)}}
			s.lsts = appendU(s.lsts, nm)
			return n
		}
		hn := fmt.Sprintf("h%d", g.fnn)
		n := &N{K: "def", S: hn, A: []*N{g.hashLit(s, d-1)}}
		s.hashes = appendU(s.hashes, hn)
		return n
	case 9:
		if len(s.hashes) > 0 {
			return Call("hset", Var(s.hashes[g.r(len(s.hashes))]), &N{K: "sym", S: []string{"p", "q", "w"}[g.r(3)]}, g.intE(s.arg(), d-1))
		}
	case 10:
		if len(s.arrs) > 0 {
			v := s.arrs[g.r(len(s.arrs))]
			return &N{K: "set", S: v, A: []*N{Call("append", Var(v), g.intE(s.arg(), d-1))}}
		}
	}
	return g.intE(s, d-1)
}

func btoi(b bool) int {
	if b {
		return 1
	}
	return 0
}

func anyTrue(b []bool) bool {
	for _, x := range b {
		if x {
			return true
		}
	}
	return false
}

// strictProbes: with lazy formals in play, every function first reports each
// strict integer formal through the trace function; an unevaluated argument
// arriving in a strict position shows up as <lazy> in the trace.
func (g *G) strictProbes(fn *N) []*N {
	if !g.C.Lazy {
		return nil
	}
	var out []*N
	for i, p := range fn.Ps {
		if p[0] == '#' || p[0] == 'k' || (fn.Var && i == len(fn.Ps)-1) {
			continue
		}
		g.trn++
		out = append(out, &N{K: "tr", I: g.trn, A: []*N{Var(p)}})
	}
	return out
}

// selfSite: a guarded self call usable as an int expression.
func (g *G) selfSite(s *sc, d int) *N {
	f := s.self
	self := []*N{Var(f.name), Call("-", Var("n"), Int(1))}
	for i := 1; i < f.n; i++ {
		if f.clo[i] {
			self = append(self, g.cloE(s.arg(), d-1))
		} else {
			self = append(self, g.intE(s.arg(), d-1))
		}
	}
	g.NSelfAnywhere++
	return &N{K: "cond", A: []*N{Call("<=", Var("n"), Int(0)), g.lit(), &N{K: "app", A: self}}}
}

// tailCtx composes tail-position contexts (and/or/cond/let/letseq/begin/
// newScope) around int expressions; non-final operands and the final one may
// both contain guarded self calls, so the same function exercises self calls
// in tail and in non-tail positions of every context.
func (g *G) tailCtx(s *sc, d int, depth int) *N {
	x := func() *N {
		if s.self != nil && g.r(3) == 0 {
			return g.selfSite(s, d)
		}
		return g.intE(s, d-1)
	}
	if depth <= 0 {
		return x()
	}
	switch g.r(7) {
	case 0, 1:
		k := []string{"and", "or"}[g.r(2)]
		a := []*N{}
		for i := g.r(3); i > 0; i-- {
			a = append(a, x())
		}
		return &N{K: k, A: append(a, g.tailCtx(s, d, depth-1))}
	case 2:
		a := []*N{}
		for i := 1 + g.r(2); i > 0; i-- {
			a = append(a, g.boolE(s, d-1), g.tailCtx(s, d, depth-1))
		}
		return &N{K: "cond", A: append(a, g.tailCtx(s, d, depth-1))}
	case 3, 4:
		n := &N{K: []string{"let", "letseq"}[g.r(2)]}
		p := g.pool()
		n.Ps = []string{p}
		ns := s.clone()
		init := x()
		ns.ints = appendU(ns.ints, p)
		n.A = []*N{init, g.tailCtx(ns, d, depth-1)}
		return n
	case 5:
		return &N{K: "begin", A: []*N{x(), g.tailCtx(s, d, depth-1)}}
	}
	return &N{K: "newscope", A: []*N{x(), g.tailCtx(s.clone(), d, depth-1)}}
}
