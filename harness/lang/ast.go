// Package lang: AST of the core language, renderers, reference evaluator and
// type-directed generator shared by C02, C03, C05, C09, C16 (and as workload for
// C01, C04, C13, C20).
package lang

import (
	"strconv"
	"strings"

	"zyverif/core"
)

// N is an AST node.
type N struct {
	K   string // see Render for the kinds
	I   int64
	B   bool
	S   string // name / op / label / string literal
	A   []*N
	Ps  []string // params ("#x" lazy) or let-binding names
	Var bool     // variadic: last param collects the rest
}

func Int(i int64) *N             { return &N{K: "int", I: i} }
func Var(s string) *N            { return &N{K: "var", S: s} }
func Call(op string, a ...*N) *N { return &N{K: "call", S: op, A: a} }
func App(a ...*N) *N             { return &N{K: "app", A: a} }

// Printer renders an AST; with Noise set, legal whitespace and comments are
// inserted between tokens.
type Printer struct {
	Noise *core.Rng
}

func (p *Printer) sp() string {
	if p.Noise == nil {
		return " "
	}
	switch p.Noise.N(10) {
	case 0:
		return "\n"
	case 1:
		return "  "
	case 2:
		return " \t "
	case 3:
		return " /* c */ "
	case 4:
		return " // note\n"
	case 5:
		return "\n\n  "
	}
	return " "
}

// opt: optional whitespace (after an opening or before a closing bracket).
func (p *Printer) opt() string {
	if p.Noise == nil {
		return ""
	}
	switch p.Noise.N(8) {
	case 0:
		return " "
	case 1:
		return "\n"
	case 2:
		return " /*x*/ "
	}
	return ""
}

func (p *Printer) list(a []*N) string {
	var b strings.Builder
	for _, x := range a {
		b.WriteString(p.sp())
		b.WriteString(p.Sx(x))
	}
	return b.String()
}

func params(n *N) []string {
	ps := append([]string{}, n.Ps...)
	if n.Var {
		ps = append(ps[:len(ps)-1], "&", ps[len(ps)-1])
	}
	return ps
}

// Sx renders one node as s-expression text.
func (p *Printer) Sx(n *N) string {
	switch n.K {
	case "int":
		return strconv.FormatInt(n.I, 10)
	case "bool":
		if n.B {
			return "true"
		}
		return "false"
	case "nil":
		return "nil"
	case "str":
		return strconv.Quote(n.S) // only ASCII printable pool strings are generated
	case "sym": // quoted symbol literal a:
		return n.S + ":"
	case "var":
		return n.S
	case "call":
		return "(" + p.opt() + n.S + p.list(n.A) + p.opt() + ")"
	case "def", "set":
		return "(" + p.opt() + n.K + p.sp() + n.S + p.sp() + p.Sx(n.A[0]) + p.opt() + ")"
	case "let", "letseq":
		b := "[" + p.opt()
		for i, nm := range n.Ps {
			if i > 0 {
				b += p.sp()
			}
			b += nm + p.sp() + p.Sx(n.A[i])
		}
		b += p.opt() + "]"
		return "(" + p.opt() + n.K + p.sp() + b + p.list(n.A[len(n.Ps):]) + p.opt() + ")"
	case "newscope":
		return "(" + p.opt() + "newScope" + p.list(n.A) + p.opt() + ")"
	case "begin", "cond", "and", "or":
		return "(" + p.opt() + n.K + p.list(n.A) + p.opt() + ")"
	case "for":
		lab := ""
		if n.S != "" {
			lab = n.S + ":" + p.sp()
		}
		return "(" + p.opt() + "for" + p.sp() + lab + "[" + p.opt() + p.Sx(n.A[0]) + p.sp() + p.Sx(n.A[1]) + p.sp() + p.Sx(n.A[2]) + p.opt() + "]" + p.list(n.A[3:]) + p.opt() + ")"
	case "break", "continue":
		if n.S != "" {
			return "(" + n.K + p.sp() + n.S + ":" + p.opt() + ")"
		}
		return "(" + n.K + p.opt() + ")"
	case "fn":
		return "(" + p.opt() + "fn" + p.sp() + "[" + strings.Join(params(n), p.sp()) + "]" + p.list(n.A) + p.opt() + ")"
	case "defn":
		return "(" + p.opt() + "defn" + p.sp() + n.S + p.sp() + "[" + strings.Join(params(n), p.sp()) + "]" + p.list(n.A) + p.opt() + ")"
	case "app":
		return "(" + p.opt() + p.Sx(n.A[0]) + p.list(n.A[1:]) + p.opt() + ")"
	case "tr":
		return "(" + p.opt() + "tr" + p.sp() + strconv.FormatInt(n.I, 10) + p.sp() + p.Sx(n.A[0]) + p.opt() + ")"
	case "idw": // host identity call: takes its argument out of tail position
		return "(" + "idw" + p.sp() + p.Sx(n.A[0]) + ")"
	case "arr":
		return "[" + strings.TrimLeft(p.list(n.A), " ") + p.opt() + "]"
	case "inj":
		return "(" + "inj" + p.sp() + strconv.FormatInt(n.I, 10) + ")"
	case "try":
		return "(" + "try" + p.sp() + "(fn []" + p.list(n.A) + "))"
	case "force":
		return "(" + "force" + p.sp() + n.S + ")"
	case "subst":
		return "(" + "str" + p.sp() + "(substitute" + p.sp() + n.S + "))"
	case "bad": // a form that fails to compile (C05 compile-error injection)
		return n.S
	}
	panic("lang.Sx: unknown node kind " + n.K)
}

// Program renders a list of top-level forms, one text ending in a newline.
func (p *Printer) Program(forms []*N) string {
	var b strings.Builder
	for i, f := range forms {
		if i > 0 {
			if p.Noise == nil {
				b.WriteString(" ")
			} else {
				b.WriteString(p.sp())
			}
		}
		b.WriteString(p.Sx(f))
	}
	b.WriteString("\n")
	return b.String()
}

var Plain = &Printer{}

// Count returns the number of nodes.
func Count(a []*N) int {
	n := 0
	for _, x := range a {
		n += 1 + Count(x.A)
	}
	return n
}

// Walk visits every node.
func Walk(a []*N, f func(*N)) {
	for _, x := range a {
		f(x)
		Walk(x.A, f)
	}
}
