package lang

// Reference evaluator: a direct recursive interpreter over the AST. It shares
// no code or structure with zygomys (no bytecode, no stacks, no tail calls).

import (
	"fmt"
	"math"
	"strconv"
	"strings"
)

type V interface{}

type Clo struct {
	Fn  *N
	Env *Env
}
type Arr struct{ V []V }
type Lst struct{ V []V } // never empty: the empty list is nil
type Hash struct {
	Keys []string
	M    map[string]V
}
type Thunk struct {
	n    *N
	env  *Env
	done bool
	val  V
}
type Builtin struct{ Op string } // a builtin passed as a value (e.g. + to apply)

type Env struct {
	M   map[string]*V
	Up  *Env
	Act *Env // the function activation this scope belongs to (nil: top level)
}

func NewEnv(up *Env) *Env {
	e := &Env{M: map[string]*V{}, Up: up}
	if up != nil {
		e.Act = up.Act
	}
	return e
}

func (e *Env) find(s string) *V {
	for x := e; x != nil; x = x.Up {
		if p, ok := x.M[s]; ok {
			return p
		}
	}
	return nil
}

// ErrV is a script-level error of the reference semantics.
type ErrV struct{ Kind, What string }

type brk struct {
	cont  bool
	label string
}

// R is one run of the reference evaluator.
type R struct {
	Trace    []string
	Steps    int
	MaxSteps int
	InjN     int // number of (inj) executions so far
	InjK     int // the InjK-th (inj) fails (0 = none)
	Absorbed int // failures absorbed by (try …)
	Forced   int // thunks forced
	// observations for the non-triviality rules
	EscapedCalls int           // closure applied after the activation that created it had returned
	Activations  map[*N]int    // calls per function literal
	live         map[*Env]bool // running activations
}

func isCallable(v V) bool {
	switch v.(type) {
	case *Builtin, *Clo:
		return true
	}
	return false
}

func mkList(v []V) V {
	if len(v) == 0 {
		return nil
	}
	return &Lst{v}
}

// Show renders a value exactly as sut.Show renders the corresponding Sexp.
func Show(v V) string {
	switch x := v.(type) {
	case int64:
		return strconv.FormatInt(x, 10)
	case bool:
		if x {
			return "true"
		}
		return "false"
	case nil:
		return "nil"
	case string:
		return strconv.Quote(x)
	case symV:
		return "sym:" + string(x)
	case *Arr:
		s := "["
		for i, e := range x.V {
			if i > 0 {
				s += " "
			}
			s += Show(e)
		}
		return s + "]"
	case *Lst:
		s := "("
		for i, e := range x.V {
			if i > 0 {
				s += " "
			}
			s += Show(e)
		}
		return s + ")"
	case *Hash:
		s := "{hash"
		for _, k := range x.Keys {
			s += " sym:" + k + ":" + Show(x.M[k])
		}
		return s + "}"
	case *Clo, *Builtin:
		return "<fn>"
	case *Thunk:
		return "<lazy>"
	}
	return fmt.Sprintf("?%T", v)
}

type symV string

// Truthy: exactly false, nil and integer 0 are falsy among generated values.
func Truthy(v V) bool {
	switch x := v.(type) {
	case bool:
		return x
	case int64:
		return x != 0
	case nil:
		return false
	}
	return true
}

// Run evaluates top-level forms in env; it returns the value or the error.
func (r *R) Run(forms []*N, env *Env) (val V, err *ErrV) {
	defer func() {
		if x := recover(); x != nil {
			switch e := x.(type) {
			case ErrV:
				err = &e
			case brk:
				err = &ErrV{"strayBreak", ""}
			default:
				panic(x)
			}
		}
	}()
	return r.body(forms, env), nil
}

// Apply calls a closure value with already evaluated arguments.
func (r *R) Apply(f V, args []V) (val V, err *ErrV) {
	defer func() {
		if x := recover(); x != nil {
			switch e := x.(type) {
			case ErrV:
				err = &e
			case brk:
				err = &ErrV{"strayBreak", ""}
			default:
				panic(x)
			}
		}
	}()
	return r.apply(f, args), nil
}

func (r *R) body(a []*N, e *Env) V {
	var v V
	for _, x := range a {
		v = r.ev(x, e)
	}
	return v
}

func (r *R) ev(n *N, e *Env) V {
	r.Steps++
	max := r.MaxSteps
	if max == 0 {
		max = 200000
	}
	if r.Steps > max {
		panic(ErrV{"budget", ""})
	}
	switch n.K {
	case "int":
		return n.I
	case "bool":
		return n.B
	case "nil":
		return nil
	case "str":
		return n.S
	case "sym":
		return symV(n.S)
	case "var":
		p := e.find(n.S)
		if p == nil {
			if isBuiltinName(n.S) {
				return &Builtin{n.S}
			}
			panic(ErrV{"unbound", n.S})
		}
		return *p
	case "force":
		p := e.find(n.S)
		if p == nil {
			panic(ErrV{"unbound", n.S})
		}
		th, ok := (*p).(*Thunk)
		if !ok {
			return *p
		}
		return r.force(th)
	case "subst":
		p := e.find(n.S)
		if p == nil {
			panic(ErrV{"unbound", n.S})
		}
		if th, ok := (*p).(*Thunk); ok {
			unmodelled := false
			Walk([]*N{th.n}, func(x *N) {
				switch x.K {
				case "sym", "str":
					unmodelled = true
				case "for", "break", "continue":
					if x.S != "" { // labels print without their colon
						unmodelled = true
					}
				}
			})
			if unmodelled {
				panic(ErrV{"budget", "substitute-of-source-with-unmodelled-printing"})
			}
			return Plain.Sx(th.n)
		}
		if i, ok := (*p).(int64); ok {
			return strconv.FormatInt(i, 10)
		}
		panic(ErrV{"budget", "substitute-of-nonint-value"})
	case "try":
		ne := NewEnv(e)
		var out V
		func() {
			defer func() {
				if x := recover(); x != nil {
					if ev, ok := x.(ErrV); ok && ev.Kind != "budget" {
						r.Absorbed++
						out = int64(-77)
						return
					}
					if _, ok := x.(brk); ok { // a stray break inside the applied closure is an error too
						r.Absorbed++
						out = int64(-77)
						return
					}
					panic(x)
				}
			}()
			out = r.body(n.A, ne)
		}()
		return out
	case "inj":
		r.InjN++
		if r.InjN == r.InjK {
			panic(ErrV{"injected", strconv.FormatInt(n.I, 10)})
		}
		return n.I
	case "bad":
		panic(ErrV{"compile", n.S})
	case "tr":
		v := r.ev(n.A[0], e)
		r.Trace = append(r.Trace, fmt.Sprintf("%d:%s", n.I, Show(v)))
		return v
	case "idw":
		return r.ev(n.A[0], e)
	case "arr":
		out := []V{}
		for _, a := range n.A {
			out = append(out, r.ev(a, e))
		}
		return &Arr{out}
	case "call":
		args := []V{}
		for _, a := range n.A {
			args = append(args, r.ev(a, e))
		}
		return r.builtin(n.S, args)
	case "def":
		v := r.ev(n.A[0], e)
		if p, ok := e.M[n.S]; ok {
			*p = v
		} else {
			vv := v
			e.M[n.S] = &vv
		}
		return v
	case "set":
		v := r.ev(n.A[0], e)
		if p := e.find(n.S); p != nil {
			*p = v
		} else {
			vv := v
			e.M[n.S] = &vv
		}
		return v
	case "let":
		ne := NewEnv(e)
		vals := []V{}
		for i := range n.Ps {
			vals = append(vals, r.ev(n.A[i], ne))
		}
		for i, p := range n.Ps {
			v := vals[i]
			ne.M[p] = &v
		}
		return r.body(n.A[len(n.Ps):], ne)
	case "letseq":
		ne := NewEnv(e)
		for i, p := range n.Ps {
			v := r.ev(n.A[i], ne)
			if q, ok := ne.M[p]; ok {
				*q = v
			} else {
				ne.M[p] = &v
			}
		}
		return r.body(n.A[len(n.Ps):], ne)
	case "newscope":
		return r.body(n.A, NewEnv(e))
	case "begin":
		return r.body(n.A, e)
	case "cond":
		i := 0
		for ; i+1 < len(n.A); i += 2 {
			if Truthy(r.ev(n.A[i], e)) {
				return r.ev(n.A[i+1], e)
			}
		}
		return r.ev(n.A[i], e)
	case "and", "or":
		var v V
		for _, a := range n.A {
			v = r.ev(a, e)
			if Truthy(v) == (n.K == "or") {
				return v
			}
		}
		return v
	case "for":
		ne := NewEnv(e)
		r.ev(n.A[0], ne)
		for Truthy(r.ev(n.A[1], ne)) {
			done := func() (stop bool) {
				defer func() {
					if x := recover(); x != nil {
						if b, ok := x.(brk); ok && (b.label == "" || b.label == n.S) {
							stop = !b.cont
							return
						}
						panic(x)
					}
				}()
				r.body(n.A[3:], ne)
				return false
			}()
			if done {
				break
			}
			r.ev(n.A[2], ne)
		}
		return nil
	case "break":
		panic(brk{false, n.S})
	case "continue":
		panic(brk{true, n.S})
	case "fn":
		return &Clo{n, e}
	case "defn":
		var v V = &Clo{n, e}
		if p, ok := e.M[n.S]; ok {
			*p = v
		} else {
			e.M[n.S] = &v
		}
		return nil
	case "app":
		f := r.ev(n.A[0], e)
		args := []V{}
		c, _ := f.(*Clo)
		for i, a := range n.A[1:] {
			if c != nil && i < len(c.Fn.Ps) && strings.HasPrefix(c.Fn.Ps[i], "#") && !(c.Fn.Var && i >= len(c.Fn.Ps)-1) {
				args = append(args, &Thunk{n: a, env: e})
				continue
			}
			args = append(args, r.ev(a, e))
		}
		return r.apply(f, args)
	}
	panic("lang.ev: unknown node kind " + n.K)
}

func (r *R) force(th *Thunk) V {
	if !th.done {
		r.Forced++
		th.val = r.ev(th.n, th.env)
		th.done = true
	}
	return th.val
}

func (r *R) apply(f V, args []V) V {
	if b, ok := f.(*Builtin); ok {
		return r.builtin(b.Op, args)
	}
	c, ok := f.(*Clo)
	if !ok {
		panic(ErrV{"notfn", ""})
	}
	np := len(c.Fn.Ps)
	ne := NewEnv(c.Env)
	ne.Act = ne
	if r.live == nil {
		r.live = map[*Env]bool{}
		r.Activations = map[*N]int{}
	}
	if c.Env.Act != nil && !r.live[c.Env.Act] {
		r.EscapedCalls++
	}
	r.Activations[c.Fn]++
	r.live[ne] = true
	defer delete(r.live, ne)
	bind := func(name string, v V) {
		ne.M[name] = &v
	}
	if c.Fn.Var {
		if len(args) < np-1 {
			panic(ErrV{"arity", ""})
		}
		for i := 0; i < np-1; i++ {
			bind(c.Fn.Ps[i], args[i])
		}
		bind(c.Fn.Ps[np-1], mkList(append([]V{}, args[np-1:]...)))
	} else {
		if len(args) != np {
			panic(ErrV{"arity", ""})
		}
		for i := 0; i < np; i++ {
			bind(c.Fn.Ps[i], args[i])
		}
	}
	return r.body(c.Fn.A, ne)
}

var builtinNames = map[string]bool{"+": true, "-": true, "*": true}

func isBuiltinName(s string) bool { return builtinNames[s] }

func (r *R) builtin(op string, a []V) V {
	ints := func() []int64 {
		o := []int64{}
		for _, x := range a {
			i, ok := x.(int64)
			if !ok {
				panic(ErrV{"type", op})
			}
			o = append(o, i)
		}
		return o
	}
	need := func(n int) {
		if len(a) != n {
			panic(ErrV{"arity", op})
		}
	}
	switch op {
	case "+", "-", "*":
		x := ints()
		if len(x) == 0 {
			panic(ErrV{"arity", op})
		}
		acc := x[0]
		for _, y := range x[1:] {
			switch op {
			case "+":
				acc += y
			case "-":
				acc -= y
			case "*":
				acc *= y
			}
			if acc > 1<<52 || acc < -(1<<52) {
				// numeric corner values are C07's subject; programs that leave the
				// exactly representable range are skipped, not judged
				panic(ErrV{"budget", "overflow"})
			}
		}
		return acc
	case "**":
		need(2)
		x := ints()
		return int64(math.Pow(float64(x[0]), float64(x[1]))) // the language's integer power: float64 power, truncated
	case "<", ">", "<=", ">=", "==", "!=":
		need(2)
		if s0, ok := a[0].(string); ok {
			s1, ok := a[1].(string)
			if !ok {
				panic(ErrV{"type", op})
			}
			c := strings.Compare(s0, s1)
			return cmpRes(op, c)
		}
		x := ints()
		c := 0
		if x[0] < x[1] {
			c = -1
		} else if x[0] > x[1] {
			c = 1
		}
		return cmpRes(op, c)
	case "not":
		need(1)
		return !Truthy(a[0])
	case "append":
		need(2)
		arr, ok := a[0].(*Arr)
		if !ok {
			panic(ErrV{"type", op})
		}
		return &Arr{append(append([]V{}, arr.V...), a[1])}
	case "concat":
		need(2)
		switch x := a[0].(type) {
		case *Arr:
			y, ok := a[1].(*Arr)
			if !ok {
				panic(ErrV{"type", op})
			}
			return &Arr{append(append([]V{}, x.V...), y.V...)}
		case string:
			y, ok := a[1].(string)
			if !ok {
				panic(ErrV{"type", op})
			}
			return x + y
		}
		panic(ErrV{"type", op})
	case "len":
		need(1)
		switch x := a[0].(type) {
		case *Arr:
			return int64(len(x.V))
		case nil:
			return int64(0)
		case *Lst:
			return int64(len(x.V))
		case string:
			return int64(len(x))
		}
		panic(ErrV{"type", op})
	case "aget":
		need(2)
		arr, ok := a[0].(*Arr)
		i, ok2 := a[1].(int64)
		if !ok || !ok2 {
			panic(ErrV{"type", op})
		}
		if i < 0 || int(i) >= len(arr.V) {
			panic(ErrV{"index", ""})
		}
		return arr.V[i]
	case "aset":
		need(3)
		arr, ok := a[0].(*Arr)
		i, ok2 := a[1].(int64)
		if !ok || !ok2 {
			panic(ErrV{"type", op})
		}
		if i < 0 || int(i) >= len(arr.V) {
			panic(ErrV{"index", ""})
		}
		arr.V[i] = a[2]
		return nil
	case "first":
		need(1)
		switch x := a[0].(type) {
		case *Arr:
			if len(x.V) == 0 {
				panic(ErrV{"index", ""})
			}
			return x.V[0]
		case *Lst:
			return x.V[0]
		}
		panic(ErrV{"type", op})
	case "rest":
		need(1)
		switch x := a[0].(type) {
		case *Arr:
			if len(x.V) == 0 {
				return &Arr{[]V{}}
			}
			return &Arr{append([]V{}, x.V[1:]...)}
		case *Lst:
			return mkList(append([]V{}, x.V[1:]...))
		case nil:
			return nil
		}
		panic(ErrV{"type", op})
	case "list":
		return mkList(append([]V{}, a...))
	case "cons":
		need(2)
		switch x := a[1].(type) {
		case nil:
			return mkList([]V{a[0]})
		case *Lst:
			return mkList(append([]V{a[0]}, x.V...))
		}
		panic(ErrV{"type", op})
	case "str":
		need(1)
		if i, ok := a[0].(int64); ok {
			return strconv.FormatInt(i, 10)
		}
		panic(ErrV{"type", op})
	case "map":
		need(2)
		switch x := a[1].(type) {
		case *Arr:
			out := []V{}
			for _, e := range x.V {
				out = append(out, r.apply(a[0], []V{e}))
			}
			return &Arr{out}
		case *Lst:
			out := []V{}
			for _, e := range x.V {
				out = append(out, r.apply(a[0], []V{e}))
			}
			return mkList(out)
		case nil:
			// the empty list (an empty variadic tail, (list)) is a list
			if isCallable(a[0]) {
				return nil
			}
		}
		panic(ErrV{"type", op})
	case "apply":
		need(2)
		switch x := a[1].(type) {
		case *Arr:
			return r.apply(a[0], append([]V{}, x.V...))
		case *Lst:
			return r.apply(a[0], append([]V{}, x.V...))
		case nil:
			if isCallable(a[0]) {
				return r.apply(a[0], nil)
			}
		}
		panic(ErrV{"type", op})
	case "hash":
		h := &Hash{M: map[string]V{}}
		if len(a)%2 != 0 {
			panic(ErrV{"arity", op})
		}
		for i := 0; i < len(a); i += 2 {
			k, ok := a[i].(symV)
			if !ok {
				panic(ErrV{"type", op})
			}
			if _, dup := h.M[string(k)]; !dup {
				h.Keys = append(h.Keys, string(k))
			}
			h.M[string(k)] = a[i+1]
		}
		return h
	case "hget":
		h, ok := a[0].(*Hash)
		if !ok || len(a) < 2 || len(a) > 3 {
			panic(ErrV{"type", op})
		}
		k, ok := a[1].(symV)
		if !ok {
			panic(ErrV{"type", op})
		}
		if v, ok := h.M[string(k)]; ok {
			return v
		}
		if len(a) == 3 {
			return a[2]
		}
		panic(ErrV{"nokey", string(k)})
	case "hset":
		need(3)
		h, ok := a[0].(*Hash)
		k, ok2 := a[1].(symV)
		if !ok || !ok2 {
			panic(ErrV{"type", op})
		}
		if _, dup := h.M[string(k)]; !dup {
			h.Keys = append(h.Keys, string(k))
		}
		h.M[string(k)] = a[2]
		return nil
	}
	panic("lang.builtin: unknown " + op)
}

func cmpRes(op string, c int) bool {
	switch op {
	case "<":
		return c < 0
	case ">":
		return c > 0
	case "<=":
		return c <= 0
	case ">=":
		return c >= 0
	case "==":
		return c == 0
	}
	return c != 0
}
