//go:build !race

package sut

import "github.com/glycerine/zygomys/v9/zygo"

// StepsNow is read by the worker's watchdog goroutine while the VM runs: a
// deliberately unsynchronised read of a monotone counter (diagnostic only).
func StepsNow() int64 { return zygo.Verif.Steps }
