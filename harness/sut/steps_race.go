//go:build race

package sut

// In the race-detector build the watchdog must not read the VM's step counter
// from another goroutine (the harness itself would be the race).
func StepsNow() int64 { return 0 }
