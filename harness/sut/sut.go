// Package sut wraps the real zygomys interpreter for the monitors: escape
// boundary (recover), step budget, canonical value rendering.
package sut

import (
	"errors"
	"fmt"
	"runtime"
	"strconv"
	"strings"

	"github.com/glycerine/zygomys/v9/zygo"
)

const DefaultBudget = 2_000_000

// PanicSite returns the innermost frame of package zygo on the current
// (panicking) stack; call it from a deferred function.
func PanicSite(skip int) string {
	pcs := make([]uintptr, 64)
	n := runtime.Callers(skip, pcs)
	frames := runtime.CallersFrames(pcs[:n])
	for {
		f, more := frames.Next()
		if strings.Contains(f.Function, "zygomys/v9/zygo.") {
			name := f.Function[strings.Index(f.Function, "zygomys/v9/zygo.")+len("zygomys/v9/zygo."):]
			return name
		}
		if !more {
			break
		}
	}
	return "?"
}

// Outcome of one call of a script-facing entry point.
type Outcome struct {
	Val    zygo.Sexp
	Err    error
	Panic  string // non-empty: a panic escaped the library
	Site   string
	Budget bool // the step budget was exceeded
	Steps  int64
}

func (o *Outcome) IsErr() bool { return o.Err != nil }

// ErrLine is the first line of the error text.
func (o *Outcome) ErrLine() string {
	if o.Err == nil {
		return ""
	}
	return strings.SplitN(o.Err.Error(), "\n", 2)[0]
}

// Protect runs f behind the escape boundary.
func Protect(f func()) (pan string, site string) {
	defer func() {
		if x := recover(); x != nil {
			pan = fmt.Sprintf("%v", x)
			if pan == "" {
				pan = "panic"
			}
			site = PanicSite(3)
		}
	}()
	f()
	return
}

func isBudget(err error) bool {
	return err != nil && (errors.Is(err, zygo.ErrVerifBudget) || strings.Contains(err.Error(), zygo.ErrVerifBudget.Error()))
}

// Eval runs EvalString behind the escape boundary with a step budget.
func Eval(env *zygo.Zlisp, text string, budget int64) *Outcome {
	if budget <= 0 {
		budget = DefaultBudget
	}
	o := &Outcome{}
	zygo.VerifReset(budget)
	o.Panic, o.Site = Protect(func() {
		o.Val, o.Err = env.EvalString(text)
	})
	o.Steps = zygo.Verif.Steps
	zygo.Verif.Budget = 0
	zygo.Verif.FailAt = 0
	if isBudget(o.Err) || (o.Panic != "" && strings.Contains(o.Panic, zygo.ErrVerifBudget.Error())) {
		o.Budget = true
	}
	return o
}

// EvalFailAt is Eval with an injected fault after the k-th VM instruction.
func EvalFailAt(env *zygo.Zlisp, text string, budget int64, k int64) *Outcome {
	if budget <= 0 {
		budget = DefaultBudget
	}
	o := &Outcome{}
	zygo.VerifReset(budget)
	zygo.Verif.FailAt = k
	o.Panic, o.Site = Protect(func() {
		o.Val, o.Err = env.EvalString(text)
	})
	o.Steps = zygo.Verif.Steps
	zygo.Verif.Budget = 0
	zygo.Verif.FailAt = 0
	if isBudget(o.Err) {
		o.Budget = true
	}
	return o
}

// Call runs an arbitrary entry point behind the boundary with a budget.
func Call(budget int64, f func() (zygo.Sexp, error)) *Outcome {
	if budget <= 0 {
		budget = DefaultBudget
	}
	o := &Outcome{}
	zygo.VerifReset(budget)
	o.Panic, o.Site = Protect(func() {
		o.Val, o.Err = f()
	})
	o.Steps = zygo.Verif.Steps
	zygo.Verif.Budget = 0
	zygo.Verif.FailAt = 0
	if isBudget(o.Err) {
		o.Budget = true
	}
	return o
}

func New(std bool) *zygo.Zlisp {
	env := zygo.NewZlisp()
	if std {
		env.StandardSetup()
	}
	return env
}

// Depths is the rest-state vector of the VM.
type Depths struct{ Data, Scope, Addr, Loop int }

func DepthsOf(env *zygo.Zlisp) Depths {
	d, s, a, l, _, _ := env.VerifDepths()
	return Depths{d, s, a, l}
}

func (d Depths) String() string {
	return fmt.Sprintf("data=%d scope=%d addr=%d loop=%d", d.Data, d.Scope, d.Addr, d.Loop)
}

// Show renders a value canonically (independent of the SUT's printer) for
// comparison with the reference evaluator.
func Show(v zygo.Sexp) string { return show(v, map[interface{}]bool{}) }

func show(v zygo.Sexp, busy map[interface{}]bool) string {
	Show := func(x zygo.Sexp) string { return show(x, busy) }
	switch v.(type) {
	case *zygo.SexpArray, *zygo.SexpHash:
		if busy[v] {
			return "<cycle>"
		}
		busy[v] = true
		defer delete(busy, v)
	}
	switch x := v.(type) {
	case nil:
		return "<nil-Sexp>"
	case *zygo.SexpInt:
		return strconv.FormatInt(x.Val, 10)
	case *zygo.SexpUint64:
		return strconv.FormatUint(x.Val, 10) + "ULL"
	case *zygo.SexpFloat:
		return "f:" + strconv.FormatFloat(x.Val, 'g', -1, 64)
	case *zygo.SexpBool:
		if x.Val {
			return "true"
		}
		return "false"
	case *zygo.SexpStr:
		return strconv.Quote(x.S)
	case *zygo.SexpChar:
		return "c:" + strconv.Itoa(int(x.Val))
	case *zygo.SexpSymbol:
		return "sym:" + x.Name()
	case *zygo.SexpSentinel:
		if x == zygo.SexpNull {
			return "nil"
		}
		return "sentinel:" + x.SexpString(nil)
	case *zygo.SexpArray:
		s := "["
		for i, e := range x.Val {
			if i > 0 {
				s += " "
			}
			s += Show(e)
		}
		return s + "]"
	case *zygo.SexpFunction:
		return "<fn>"
	case *zygo.SexpLazyArg:
		return "<lazy>"
	case *zygo.SexpPair:
		s := "("
		first := true
		var cur zygo.Sexp = x
		n := 0
		for {
			p, ok := cur.(*zygo.SexpPair)
			if !ok {
				if cur != zygo.SexpNull {
					s += " . " + Show(cur)
				}
				break
			}
			if !first {
				s += " "
			}
			first = false
			s += Show(p.Head)
			cur = p.Tail
			n++
			if n > 10000 {
				s += " …"
				break
			}
		}
		return s + ")"
	case *zygo.SexpHash:
		s := "{" + x.TypeName
		for _, k := range x.KeyOrder {
			val, err := x.HashGet(nil, k)
			if err != nil {
				continue
			}
			s += " " + Show(k) + ":" + Show(val)
		}
		return s + "}"
	}
	return fmt.Sprintf("?%T", v)
}
