package props

import (
	"fmt"
	"strings"

	"zyverif/core"
	"zyverif/sut"
)

// Programs of the core language with hand-computed expectations, for the parts of the
// reference semantics that the program generator does not produce: names are looked up when a
// call happens (late binding of globals that are defined again), a literal denotes a fresh
// collection on every evaluation, the arguments of a call are evaluated (effects and errors
// included) before the call is found to have the wrong number of them. Steps separated by " | "
// are separate evaluations on one interpreter; ERR stands for any error.
var c02Fixed = []struct{ prog, want, trace string }{
	// lists are compared along their length, however long; only nesting is bounded
	{"(defn mk [n] (let [l (list)] (for [(def i 0) (< i n) (def i (+ i 1))] (set l (cons i l))) l)) (def a (mk 10400)) (def b (mk 10400)) (list (== a b) (== a (cons 1 b)) (< (cons 0 a) (cons 1 b)))", "(true false true)", ""},
	// the empty list is a list: map and apply over an empty variadic tail
	{"(defn f [& r] (map (fn [x] (* x 2)) r)) (list (f) (f 1 2))", "(nil (2 4))", ""},
	{"(defn g [& r] (apply (fn [& q] (len q)) r)) (list (g) (g 1 2))", "(0 2)", ""},
	{"(list (map (fn [x] (tr 1 x)) (list)) (apply (fn [] (tr 2 7)) (list)) (map (fn [x] x) []))", "(nil 7 [])", "2:7"},
	// recursion written as a tail call: every iteration has its own parameters (closures made on the way keep theirs)
	{"(defn mk [n acc] (cond (== n 0) acc (mk (- n 1) (cons (fn [] n) acc)))) (map (fn [f] (f)) (mk 3 (list)))", "(1 2 3)", ""},
	{"(defn mk [n acc] (tr 1 n) (cond (== n 0) acc (mk (- n 1) (append acc (fn [] (* n 10)))))) (map (fn [f] (f)) (mk 3 []))", "[30 20 10]", "1:3,1:2,1:1,1:0"},
	{"(defn f [] 1) (defn g [] (f)) (def a (g)) (defn f [] 2) (list a (g))", "(1 2)", ""},
	{"(defn f [] 1) (defn g [] (f)) (g) | (defn f [] 2) (g) | (def f (fn [] 3)) (g)", "1|2|3", ""},
	{"(defn f [x] (+ x 1)) (defn g [x] (f (f x))) (def a (g 0)) (defn f [x] (* x 10)) (list a (g 1))", "(2 100)", ""},
	{"(def out []) (def h (fn [] \"a\")) (defn callh [] (h)) (for [(def i 0) (< i 3) (def i (+ i 1))] (set out (append out (callh))) (set h (fn [] \"b\"))) out", `["a" "b" "b"]`, ""},
	{"(def k 1) (defn readk [] k) (def a (readk)) (def k 2) (set k 3) (list a (readk))", "(1 3)", ""},
	{"(defn f [] 1) (defn mk [] (fn [] (f))) (def c (mk)) (def a (c)) (defn f [] 5) (list a (c) ((mk)))", "(1 5 5)", ""},
	{"(defn f [n] (cond (<= n 0) 0 (+ 1 (f (- n 1))))) (def g f) (defn f [n] 100) (list (g 0) (g 2))", "(0 101)", ""},
	{"(defn two [a b] (+ a b)) (two (tr 1 1) (tr 2 2) (tr 3 3))", "ERR", "1:1,2:2,3:3"},
	{"(defn two [a b] (+ a b)) (two (tr 1 1))", "ERR", "1:1"},
	{"(defn two [a b] (+ a b)) (def seen 0) (defn bump [] (set seen (+ seen 1)) seen) (two (bump) (bump) (bump)) | seen", "ERR|3", ""},
	{"(defn one [a] a) (one (tr 1 1) (aget [1] (tr 2 9)))", "ERR", "1:1,2:9"},
	{"((fn [a b] a) (tr 1 1))", "ERR", "1:1"},
	{"(defn mk [] [0 0 0 0 0 0 0 0 0]) (def a (mk)) (aset a 1 7) (list (aget a 1) (aget (mk) 1) (aget (mk) 1))", "(7 0 0)", ""},
	{"(defn mk [] [1 2 3 4 5 6 7 8 9 10 11 12]) (def acc 0) (for [(def i 0) (< i 3) (def i (+ i 1))] (def a (mk)) (set acc (+ acc (aget a 0))) (aset a 0 100)) acc", "3", ""},
	{"(defn mk [] [0 \"s\" 2.5 true nil 'c' 6 7 8]) (def a (mk)) (aset a 0 7) (aget (mk) 0)", "0", ""},
	{"(defn mk [] (hash a: 1 b: 2 c: 3 d: 4 e: 5 f: 6 g: 7 h: 8)) (def x (mk)) (hset x a: 99) (list (hget x a:) (hget (mk) a:))", "(99 1)", ""},
	{"(defn mk [] (list 1 2 3 4 5 6 7 8 9)) (def a (mk)) (def b (mk)) (list (len a) (first b))", "(9 1)", ""},
	{"(defn mk [] [[0 0 0 0 0 0 0 0] 1]) (def a (mk)) (aset (aget a 0) 0 5) (aget (aget (mk) 0) 0)", "0", ""},
	{"(def out []) (for [(def i 0) (< i 3) (def i (+ i 1))] (def row [0 0 0 0 0 0 0 0]) (aset row i 1) (set out (append out row))) out", "[[1 0 0 0 0 0 0 0] [0 1 0 0 0 0 0 0] [0 0 1 0 0 0 0 0]]", ""},
	{"(defn f [a & r] (len r)) (list (f 1) (f 1 2) (f 1 2 3)) | (f)", "(0 1 2)|ERR", ""},
	{"(defn mk [] {}) (def a (mk)) (hset a k: 1) (list (len a) (len (mk)) (len {}))", "(1 0 0)", ""},
	{"(def out []) (for [(def i 0) (< i 3) (def i (+ i 1))] (def h {}) (hset h i i) (set out (append out (len h)))) out", "[1 1 1]", ""},
	{"(defn mk [] []) (def a (mk)) (def b (append a 1)) (list (len (mk)) (len b))", "(0 1)", ""},
	{"(def h (hash a: 1 c: 3 7 4 \"s\" 5)) (def ks []) (range k v h (set ks (append ks (str k)))) ks", `["a" "c" "7" "\"s\""]`, ""},
	{"(def h (hash a: 1 7 4)) {ks := []; for k, v := range h { ks = (append ks (str k)) }; ks}", `["a" "7"]`, ""},
	{"(def u (append [0 3] 3)) (def x (append u 7)) (def y (append u -2)) (list x y u)", "([0 3 3 7] [0 3 3 -2] [0 3 3])", ""},
	{"(def u [1 2]) (def x (concat u [3])) (def y (concat u [4] [5])) (aset u 0 9) (list u x y)", "([9 2] [1 2 3] [1 2 4 5])", ""},
}

func c02FixedRun(c *core.Ctx, k int) *core.Result {
	f := c02Fixed[k]
	res := &core.Result{Input: f.prog, Hash: core.HashOf(f.prog), Nontrivial: true}
	s := NewSutRun(true)
	var gots []string
	for _, step := range strings.Split(f.prog, " | ") {
		o := s.Eval(step+"\n", 400000)
		res.Evals++
		if o.Panic != "" {
			res.Violate("escaped-panic:"+o.Site, o.Panic, f.prog)
			return res
		}
		if o.Err != nil || o.Budget {
			gots = append(gots, "ERR")
		} else {
			gots = append(gots, sut.Show(o.Val))
		}
	}
	res.Ev("fixed_programs", 1)
	if got := strings.Join(gots, "|"); got != f.want || strings.Join(s.Trace, ",") != f.trace {
		res.Violate("fixed-program-expectation", fmt.Sprintf("must give %s with trace [%s]; got %s with trace %v", f.want, f.trace, got, s.Trace), f.prog)
	}
	return res
}
