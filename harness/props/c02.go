package props

import (
	"fmt"

	"zyverif/core"
	"zyverif/lang"
	"zyverif/sut"
)

// C02 — evaluation matches the reference semantics (DESIGN §4.C02).

func c02Gen(c *core.Ctx, i int, lane int) (*lang.G, []*lang.N) {
	for try := 0; ; try++ {
		g := &lang.G{R: core.NewRng(c.Seed, "C02", i, lane*100+try), C: lang.Cfg{
			Depth: 3 + i%3, Pool: []string{"a", "b", "c", "d"}, Data: true, HigherOrder: i%2 == 0, Variadic: true, TrOneIn: 2, Recursion: true, Alias: i%3 == 0,
		}}
		if c.Thor && i%4 == 0 {
			g.C.Depth = 6
		}
		prog := g.Program()
		max := thorN(c, 80, 160)
		if lang.Count(prog) <= max || try >= 6 {
			return g, prog
		}
	}
}

func init() {
	core.Register(&core.Prop{
		ID:    "C02",
		Level: "exploration",
		Rule: "type-directed random programs of the core language (arith/compare, strings, arrays, lists, hashes, def/set, let/letseq/newScope/begin, cond 1-4 arms, and/or 1-4 operands, for with plain and labelled break/continue below let/newScope/cond, fn/defn fixed and variadic, closures as arguments and results, map/apply), " +
			"half of all sub-expressions wrapped in the host trace function; each program is run in a fresh interpreter as plain s-expression text and with whitespace/comment noise and judged against the reference evaluator (value, error-ness, ordered effect trace). " +
			"Plus 27 programs with hand-computed expectations for what the generator does not produce: late binding of globals defined again (between and within evaluations, through closures and aliases), literals denoting fresh collections on every evaluation, arguments evaluated (effects and errors) before a wrong-arity call fails, append/concat results not sharing storage. non-trivial = distinct program text containing at least one control form (cond/and/or/for) and one function call, on which the reference terminated",
		Assumptions: []string{
			"the reference evaluator (harness/lang/ref.go) is the intended semantics; calibrated on the unchanged tree at several seeds with 0 disagreements",
			"errors are compared by error-ness, never by message text",
			"programs on which the reference itself exceeds its step budget are skipped (counted as inconclusive:ref-budget)",
			"duplicate names in one let binding vector are not generated (unspecified)",
		},
		NCases:  func(c *core.Ctx) int { return thorN(c, 6000, 80000) + len(c02Fixed) },
		MustSee: []string{"tr_events", "cond", "for", "calls", "break_or_continue", "battery_calls", "fixed_programs"},
		Run:     c02Run,
	})
}

func c02Run(c *core.Ctx, i int) *core.Result {
	if base := thorN(c, 6000, 80000); i >= base {
		return c02FixedRun(c, i-base)
	}
	g, prog := c02Gen(c, i, 0)
	text := lang.Plain.Program(prog)
	res := &core.Result{Input: text, Hash: core.HashOf(text)}
	ref := &lang.R{MaxSteps: 20000}
	genv := lang.NewEnv(nil)
	rv, rerr := ref.Run(prog, genv)
	if rerr != nil && rerr.Kind == "budget" {
		res.Verdict, res.Key = core.Inconclusive, "ref-budget"
		return res
	}
	hasCtl, hasCall := false, false
	lang.Walk(prog, func(n *lang.N) {
		switch n.K {
		case "cond":
			res.Ev("cond", 1)
			hasCtl = true
		case "and", "or":
			res.Ev("and_or", 1)
			hasCtl = true
		case "for":
			res.Ev("for", 1)
			hasCtl = true
		case "break", "continue":
			res.Ev("break_or_continue", 1)
		case "app":
			res.Ev("calls", 1)
			hasCall = true
		case "let", "letseq", "newscope":
			res.Ev("scopes", 1)
		}
	})
	res.Nontrivial = hasCtl && hasCall
	res.Ev("variadic_fns", int64(g.NVariadic))
	res.Ev("tr_events", int64(len(ref.Trace)))
	if rerr != nil {
		res.Ev("ref_errors", 1)
	}
	budget := int64(400*ref.Steps + 100000)
	renderings := []string{text, (&lang.Printer{Noise: core.NewRng(c.Seed, "C02n", i, 1)}).Program(prog)}
	for ri, t := range renderings {
		if ri == 1 {
			// the battery below advanced the reference state: recompute it
			ref = &lang.R{MaxSteps: 20000}
			genv = lang.NewEnv(nil)
			rv, rerr = ref.Run(prog, genv)
		}
		s := NewSutRun(false)
		o := s.Eval(t, budget)
		res.Evals++
		res.Ev("vm_steps", o.Steps)
		if o.Err == nil && o.Panic == "" && atRest(sut.DepthsOf(s.Env)) {
			res.Ev("ended_at_rest", 1)
		}
		if key, detail := CompareRun(rv, rerr, ref.Trace, o, s.Trace); key != "" {
			if ri == 1 {
				key = "noise:" + key
			}
			res.Violate(key, fmt.Sprintf("rendering %d: %s", ri, detail), t)
		} else if res.Verdict != core.Violated {
			tr0 := ref.Trace
			RunBattery(res, g, ref, genv, s, t, []int64{2, 4}, "")
			ref.Trace = tr0
		}
	}
	return res
}
