package props

import (
	"fmt"
	"math"
	"math/big"
	"os"
	"path/filepath"
	"strconv"
	"strings"
	"unicode"
	"unicode/utf8"

	"github.com/glycerine/zygomys/v9/zygo"
	"zyverif/core"
	"zyverif/sut"
)

// C12 — printed data reads back as the same data (DESIGN §4.C12).

var c12Runes = func() []rune {
	var rs []rune
	for r := rune(0); r < 0x100; r++ {
		rs = append(rs, r)
	}
	rs = append(rs, 0x100, 0x17f, 0x2ff, 0x3b1, 0x416, 0x5d0, 0x7ff, 0x800, 0x200b, 0x2028, 0x2029, 0x20ac, 0x4e2d, 0xd7ff, 0xe000, 0xfeff, 0xfffd, 0xffff, 0x10000, 0x1f600, 0xe0001, 0x10ffff)
	return rs
}()

func c12RuneClass(r rune) string {
	switch {
	case r == '"' || r == '\\' || r == '\'':
		return "quote-backslash"
	case r == '\n' || r == '\t' || r == '\r' || r == '\a':
		return "named-escape"
	case r < 0x20:
		return "C0-other"
	case r == 0x7f:
		return "DEL"
	case r < 0x80:
		return "ascii-printable"
	case r < 0xa0:
		return "C1"
	case !unicode.IsPrint(r) && r <= 0xffff:
		return "BMP-nonprintable"
	case r <= 0x7ff:
		return "2-byte"
	case r <= 0xffff:
		return "3-byte"
	case unicode.IsPrint(r):
		return "4-byte"
	}
	return "supplementary-nonprintable"
}

type c12gen struct {
	r       *core.Rng
	arrays  []*zygo.SexpArray
	noShare bool // set while placeholders are resolved: an array complete by now may contain the placeholder (a cycle)
}

func (g *c12gen) rune1() rune {
	if g.r.N(3) == 0 {
		return rune('a' + g.r.N(26))
	}
	return c12Runes[g.r.N(len(c12Runes))]
}

func (g *c12gen) str() string {
	n := g.r.N(6)
	var b strings.Builder
	for i := 0; i < n; i++ {
		b.WriteRune(g.rune1())
	}
	return b.String()
}

var c12Floats = []float64{0, 1, -1, 1.5, 0.1, 1e-7, 1e-300, 5e-324, 123456789.0, 1e15, 1e17, 9.2e18, 9.3e18, 1e19, 1e21, 1e22, 1e100, 1.7976931348623157e308, math.Inf(1), math.Inf(-1), math.NaN(), math.Copysign(0, -1), 1.0 / 3, 2.5e-5, 1e20, 4.2e20, -9.223372036854775808e18, 0.000001, 1e6, 1e7, 12345678.9, -2.5, 100, 1e-5, 3.0e-4}

func (g *c12gen) float() float64 {
	switch g.r.N(4) {
	case 0:
		return c12Floats[g.r.N(len(c12Floats))]
	case 1: // produced by arithmetic
		a := float64(g.r.N(2000)-1000) / float64(1+g.r.N(97))
		return a * math.Pow(10, float64(g.r.N(60)-30))
	case 2:
		f := math.Float64frombits(g.r.U64())
		return f
	}
	return float64(int64(g.r.U64()>>uint(g.r.N(64)))) * []float64{1, 0.5, 0.001, 1e3}[g.r.N(4)]
}

var c12Syms = []string{"a", "foo", "x1", "isq?", "Mixed_Case", "a.b", "h.x.y", "<=", "λ", "naïve", "$d", "#lz", "?q", "snake_case2", "+", "=="}

func (g *c12gen) value(d int, jsonLike bool) zygo.Sexp {
	top := 10
	if d <= 0 {
		top = 7
	}
	switch g.r.N(top) {
	case 0:
		ints := []int64{0, 1, -1, 42, math.MaxInt64, math.MinInt64, 1 << 53, -(1 << 53) - 1, int64(g.r.U64())}
		return &zygo.SexpInt{Val: ints[g.r.N(len(ints))]}
	case 1:
		return &zygo.SexpFloat{Val: g.float()}
	case 2:
		return &zygo.SexpBool{Val: g.r.Bool()}
	case 3:
		return zygo.SexpNull
	case 4:
		if jsonLike {
			return &zygo.SexpStr{S: g.str()}
		}
		return &zygo.SexpChar{Val: g.rune1()}
	case 5:
		return &zygo.SexpStr{S: g.str()}
	case 6:
		if jsonLike {
			return &zygo.SexpInt{Val: int64(g.r.N(1000))}
		}
		return nil // symbol: needs an env, filled by caller
	case 7, 8:
		if len(g.arrays) > 0 && !g.noShare && g.r.N(6) == 0 {
			return g.arrays[g.r.N(len(g.arrays))] // the very same array object at a second position (empty ones included)
		}
		n := g.r.N(4)
		arr := make([]zygo.Sexp, 0, n)
		for i := 0; i < n; i++ {
			arr = append(arr, g.value(d-1, jsonLike))
		}
		a := &zygo.SexpArray{Val: arr}
		g.arrays = append(g.arrays, a)
		return a
	}
	if jsonLike {
		return &c12hashSpec{g: g, d: d}
	}
	n := g.r.N(4)
	items := make([]zygo.Sexp, 0, n)
	for i := 0; i < n; i++ {
		items = append(items, g.value(d-1, jsonLike))
	}
	return &c12listSpec{items}
}

// placeholders resolved against a live env (symbols, lists, hashes need one)
type c12listSpec struct{ items []zygo.Sexp }

func (*c12listSpec) SexpString(*zygo.PrintState) string { return "" }
func (*c12listSpec) Type() *zygo.RegisteredType         { return nil }

type c12hashSpec struct {
	g *c12gen
	d int
}

func (*c12hashSpec) SexpString(*zygo.PrintState) string { return "" }
func (*c12hashSpec) Type() *zygo.RegisteredType         { return nil }

func c12Resolve(env *zygo.Zlisp, g *c12gen, v zygo.Sexp) zygo.Sexp {
	g.noShare = true
	switch x := v.(type) {
	case nil:
		return env.MakeSymbol(c12Syms[g.r.N(len(c12Syms))])
	case *c12listSpec:
		var items []zygo.Sexp
		for _, it := range x.items {
			items = append(items, c12Resolve(env, g, it))
		}
		return zygo.MakeList(items)
	case *c12hashSpec:
		h, _ := zygo.MakeHash(nil, "hash", env)
		n := g.r.N(4)
		for i := 0; i < n; i++ {
			k := env.MakeSymbol([]string{"a", "b", "key", "Zz", "k2"}[g.r.N(5)])
			h.HashSet(k, c12Resolve(env, g, g.value(x.d-1, true)))
		}
		return h
	case *zygo.SexpArray:
		for i := range x.Val {
			x.Val[i] = c12Resolve(env, g, x.Val[i])
		}
		x.Env = env
		return x
	}
	return v
}

// structural equality with the language's notion of numeric equality
func c12Equal(a, b zygo.Sexp) (bool, string) {
	switch x := a.(type) {
	case *zygo.SexpInt:
		switch y := b.(type) {
		case *zygo.SexpInt:
			return x.Val == y.Val, "int value"
		case *zygo.SexpFloat:
			return float64(x.Val) == y.Val && math.Abs(y.Val) < 1<<53, "int read as float"
		}
	case *zygo.SexpFloat:
		switch y := b.(type) {
		case *zygo.SexpFloat:
			if math.IsNaN(x.Val) {
				return math.IsNaN(y.Val), "NaN"
			}
			return x.Val == y.Val && math.Signbit(x.Val) == math.Signbit(y.Val), "float value"
		case *zygo.SexpInt:
			// 1.0 prints as 1 and reads as the int 1: equal by ==
			return float64(y.Val) == x.Val && math.Abs(x.Val) < 1<<63, "float read as int" // -0.0 prints as -0 and reads as the int 0: equal by ==
		}
	case *zygo.SexpBool:
		if y, ok := b.(*zygo.SexpBool); ok {
			return x.Val == y.Val, "bool"
		}
	case *zygo.SexpSentinel:
		return b == x, "sentinel"
	case *zygo.SexpChar:
		if y, ok := b.(*zygo.SexpChar); ok {
			return x.Val == y.Val, "char"
		}
	case *zygo.SexpStr:
		if y, ok := b.(*zygo.SexpStr); ok {
			return x.S == y.S, "string"
		}
	case *zygo.SexpSymbol:
		if y, ok := b.(*zygo.SexpSymbol); ok {
			return x.Name() == y.Name(), "symbol"
		}
	case *zygo.SexpArray:
		if y, ok := b.(*zygo.SexpArray); ok {
			if len(x.Val) != len(y.Val) {
				return false, "array length"
			}
			for i := range x.Val {
				if ok, why := c12Equal(x.Val[i], y.Val[i]); !ok {
					return false, fmt.Sprintf("array[%d]: %s", i, why)
				}
			}
			return true, ""
		}
	case *zygo.SexpPair:
		y, ok := b.(*zygo.SexpPair)
		if !ok {
			return false, "list vs non-list"
		}
		if ok, why := c12Equal(x.Head, y.Head); !ok {
			return false, "list element: " + why
		}
		return c12Equal(x.Tail, y.Tail)
	case *zygo.SexpHash:
		y, ok := b.(*zygo.SexpHash)
		if !ok || len(x.KeyOrder) != len(y.KeyOrder) {
			return false, "hash shape"
		}
		for i, k := range x.KeyOrder {
			if ok, _ := c12Equal(k, y.KeyOrder[i]); !ok {
				return false, "hash key order"
			}
			xv, _ := x.HashGet(nil, k)
			yv, err := y.HashGet(nil, y.KeyOrder[i])
			if err != nil {
				return false, "hash key missing"
			}
			if ok, why := c12Equal(xv, yv); !ok {
				return false, "hash value: " + why
			}
		}
		return true, ""
	}
	return false, fmt.Sprintf("%T vs %T", a, b)
}

func c12Classify(v zygo.Sexp) string {
	switch x := v.(type) {
	case *zygo.SexpStr:
		cl := "ascii"
		for _, r := range x.S {
			if c := c12RuneClass(r); c != "ascii-printable" {
				cl = c
			}
		}
		return "string:" + cl
	case *zygo.SexpChar:
		return "char:" + c12RuneClass(x.Val)
	case *zygo.SexpFloat:
		switch {
		case math.IsNaN(x.Val) || math.IsInf(x.Val, 0):
			return "float:inf-nan"
		case math.Abs(x.Val) >= 1<<63:
			return "float:>=2^63"
		case x.Val == 0 && math.Signbit(x.Val):
			return "float:-0"
		}
		return "float"
	case *zygo.SexpInt:
		return "int"
	case *zygo.SexpSymbol:
		return "symbol"
	case *zygo.SexpArray:
		return "array"
	case *zygo.SexpPair:
		return "list"
	case *zygo.SexpHash:
		return "hash"
	}
	return fmt.Sprintf("%T", v)
}

// ---- literal spellings ----

type c12lit struct {
	text string
	kind string // int uint float
	i    int64
	u    uint64
	f    float64
	bad  bool // not representable: an error is accepted
	lim  bool // a spelling at a 64-bit limit: in every tier whatever its length
}

func c12Lits(maxLen int) []c12lit {
	var out []c12lit
	seen := map[string]bool{}
	add := func(l c12lit) {
		if (len(l.text) <= maxLen || l.lim) && !seen[l.text] {
			seen[l.text] = true
			out = append(out, l)
		}
	}
	digs := []string{"0", "1", "7", "9", "10", "12", "90", "007", "1_0", "1_000", "0_1", "99", "123", "9223372036854775807", "9223372036854775808", "1__2"}
	for _, d := range digs {
		for _, sign := range []string{"", "-"} {
			clean := strings.ReplaceAll(d, "_", "")
			bi, _ := new(big.Int).SetString(sign+clean, 10)
			l := c12lit{text: sign + d, kind: "int"}
			if bi.IsInt64() {
				l.i = bi.Int64()
			} else {
				l.bad = true
			}
			add(l)
		}
	}
	add(c12lit{text: "-9223372036854775808", kind: "int", i: math.MinInt64, lim: true})
	// radix spellings at the 63/64-bit limits
	for _, rl := range []struct {
		prefix string
		base   int
		digits []string
	}{
		{"0x", 16, []string{"7fffffffffffffff", "7FFFFFFFFFFFFFFF", "8000000000000000", "ffffffffffffffff", "FFFFFFFFFFFFFFFF", "10000000000000000"}},
		{"0o", 8, []string{"777777777777777777777", "1000000000000000000000", "1777777777777777777777", "2000000000000000000000"}},
		{"0b", 2, []string{strings.Repeat("1", 63), "1" + strings.Repeat("0", 63), strings.Repeat("1", 64), "1" + strings.Repeat("0", 64)}},
	} {
		for _, dg := range rl.digits {
			bi, _ := new(big.Int).SetString(dg, rl.base)
			l := c12lit{text: rl.prefix + dg, kind: "int", lim: true}
			if bi.IsInt64() {
				l.i = bi.Int64()
			} else {
				l.bad = true
			}
			add(l)
			if rl.base != 2 {
				lu := c12lit{text: rl.prefix + dg + "ULL", kind: "uint", lim: true}
				if bi.IsUint64() {
					lu.u = bi.Uint64()
				} else {
					lu.bad = true
				}
				add(lu)
			}
		}
	}
	for _, dg := range []string{"9223372036854775807", "9223372036854775808", "18446744073709551615", "18446744073709551616"} {
		bi, _ := new(big.Int).SetString(dg, 10)
		l := c12lit{text: dg, kind: "int", lim: true, bad: !bi.IsInt64()}
		if !l.bad {
			l.i = bi.Int64()
		}
		add(l)
		lu := c12lit{text: dg + "ULL", kind: "uint", lim: true, bad: !bi.IsUint64()}
		if !lu.bad {
			lu.u = bi.Uint64()
		}
		add(lu)
	}
	for _, h := range []string{"0", "1", "f", "F", "1F", "ff", "aB", "10", "7fffffffffffffff", "ffffffffffffffff", "0a"} {
		v, err := strconv.ParseUint(h, 16, 64)
		l := c12lit{text: "0x" + h, kind: "int", i: int64(v)}
		if err != nil || v > math.MaxInt64 {
			l.bad = true
		}
		add(l)
		add(c12lit{text: "0x" + h + "ULL", kind: "uint", u: v})
	}
	for _, o := range []string{"0", "7", "17", "777", "10", "01"} {
		v, _ := strconv.ParseUint(o, 8, 64)
		add(c12lit{text: "0o" + o, kind: "int", i: int64(v)})
		add(c12lit{text: "0o" + o + "ULL", kind: "uint", u: v})
	}
	for _, b := range []string{"0", "1", "101", "1111", "10"} {
		v, _ := strconv.ParseUint(b, 2, 64)
		add(c12lit{text: "0b" + b, kind: "int", i: int64(v)})
	}
	for _, d := range []string{"0", "1", "12", "18446744073709551615", "9223372036854775808", "007"} {
		v, err := strconv.ParseUint(d, 10, 64)
		l := c12lit{text: d + "ULL", kind: "uint", u: v}
		if err != nil {
			l.bad = true
		}
		add(l)
	}
	mant := []string{"1.", ".5", "1.5", "0.1", "10.25", "1_0.5", "0.0", "00.5", "9.99", "123.456", ".001", "1.0"}
	exps := []string{"", "e3", "E3", "e-3", "e+3", "e0", "e10", "e-10", "e308", "e-320", "e400"}
	for _, m := range mant {
		for _, e := range exps {
			for _, sign := range []string{"", "-"} {
				t := sign + m + e
				f, err := strconv.ParseFloat(strings.ReplaceAll(t, "_", ""), 64)
				l := c12lit{text: t, kind: "float", f: f}
				if err != nil {
					l.bad = true // out of range (e400): error or ±Inf both accepted
				}
				add(l)
			}
		}
	}
	for _, m := range []string{"1", "12", "7", "0"} {
		for _, e := range exps[1:] {
			for _, sign := range []string{"", "-"} {
				t := sign + m + e
				f, err := strconv.ParseFloat(t, 64)
				l := c12lit{text: t, kind: "float", f: f}
				if err != nil {
					l.bad = true
				}
				add(l)
			}
		}
	}
	add(c12lit{text: "Inf", kind: "float", f: math.Inf(1)})
	add(c12lit{text: "+Inf", kind: "float", f: math.Inf(1)})
	add(c12lit{text: "-Inf", kind: "float", f: math.Inf(-1)})
	add(c12lit{text: "inf", kind: "float", f: math.Inf(1)})
	add(c12lit{text: "NaN", kind: "float", f: math.NaN()})
	return out
}

func c12Plan(c *core.Ctx) (nvals, nlits, nchars int) {
	return thorN(c, 5000, 100000), len(c12Lits(thorN(c, 8, 24))) * 4, len(c12Runes) * 2
}

func init() {
	core.Register(&core.Prop{
		ID:    "C12",
		Level: "exploration",
		Rule: "(1) data values built through the Go API (so strings and characters can hold any rune): ints at the 64-bit limits, floats of all magnitudes (grid, random bit patterns, results of arithmetic), bools, nil, characters and strings over 278 runes covering every class (ASCII, quotes/backslash, named escapes, other C0, DEL, C1, non-printable BMP, 2/3/4-byte printable, non-printable supplementary), symbols, lists and arrays nested to depth 5: the printed text (str v) / SexpString must read back through (read …) to a structurally equal value (numbers by the language's ==). " +
			"(2) JSON-like values (numbers, strings, bools, nil, arrays, hashes with symbol keys): (eval (read (str v))) and the file path (writef/source in a scratch directory) must give back an equal value. " +
			"(3) literal spellings generated from the documented literal grammar (decimal with underscores and leading zeros, 0x / 0o / 0b, ULL suffix with and without 0x/0o, fractions 1. .5 1.5, exponents e E with signs, leading -, Inf +Inf -Inf inf NaN) in four contexts (alone, after a blank, inside a list, inside an array) must evaluate to the exact value computed with strconv / math/big (an error is accepted only when the value is not representable); character literals for every rune class and string literals with every escape denote exactly the runes written. non-trivial = distinct value containing a non-ASCII / escaped rune, a float needing >6 digits or an exponent, or a nested container; distinct literal spelling x context",
		Assumptions: []string{
			"a float that prints without fraction or exponent reads back as an int of equal value: accepted (equal by ==) when it is exactly representable as int64",
			"literal kinds are taken from the reader's own regular expressions (the documented grammar); a leading + is only generated for Inf",
		},
		NCases: func(c *core.Ctx) int {
			a, b, d := c12Plan(c)
			return a + b + d
		},
		MustSee: []string{"values_read_back", "json_like_evaluated", "file_round_trips", "literal_spellings", "char_literals", "string_literals"},
		Run:     c12Run,
	})
}

func c12Run(c *core.Ctx, i int) *core.Result {
	nvals, nlits, _ := c12Plan(c)
	switch {
	case i < nvals:
		return c12Value(c, i)
	case i < nvals+nlits:
		return c12Literal(c, i-nvals)
	}
	return c12CharStr(c, i-nvals-nlits)
}

func c12Value(c *core.Ctx, i int) *core.Result {
	g := &c12gen{r: core.NewRng(c.Seed, "C12", i, 0)}
	res := &core.Result{}
	jsonLike := i%3 == 2
	env := zygo.NewZlisp()
	env.StandardSetup()
	if i%4 == 1 {
		// the interpreter has read (and rejected, or been left in the middle of) other texts before
		for _, junk := range [][]string{{"(quote 1.2.3)\n", "\"open", "0x\n", "\"\\x4g\"\n"}, {"\"abc\\u00"}, {"'\\x4"}, {"\"\\U0001"}, {"(def s \"a\\x4"}}[(i/4)%5] {
			sut.Eval(env, junk, 0)
		}
	}
	v := c12Resolve(env, g, g.value(1+i%5, jsonLike))
	printed := ""
	pan, site := sut.Protect(func() { printed = v.SexpString(nil) })
	if pan != "" {
		res.Violate("escaped-panic:"+site, pan, "printing a value")
		return res
	}
	res.Input = printed
	res.Hash = core.HashOf(printed)
	cls := c12Classify(v)
	res.Nontrivial = cls != "int" && cls != "float" && cls != "string:ascii" && cls != "char:ascii-printable" || len(printed) > 12
	env.AddGlobal("vv", v)
	if !jsonLike {
		o := sut.Eval(env, "(read (str vv))\n", 0)
		res.Evals++
		res.Ev("values_read_back", 1)
		if o.Panic != "" {
			res.Violate("escaped-panic:"+o.Site, o.Panic, printed)
			return res
		}
		if o.Err != nil {
			res.Violate("printed-form-not-readable:"+cls, fmt.Sprintf("value printed as %s is rejected by the reader: %s", printed, o.ErrLine()), printed)
			return res
		}
		if ok, why := c12Equal(v, o.Val); !ok {
			back := "<nil>"
			if o.Val != nil {
				back = o.Val.SexpString(nil)
			}
			res.Violate("read-back-differs:"+cls, fmt.Sprintf("value printed as %s reads back as %s (%s)", printed, back, why), printed)
		}
		return res
	}
	o := sut.Eval(env, "(eval (read (str vv)))\n", 0)
	res.Evals++
	res.Ev("json_like_evaluated", 1)
	if o.Panic != "" {
		res.Violate("escaped-panic:"+o.Site, o.Panic, printed)
		return res
	}
	if o.Err != nil {
		res.Violate("printed-form-not-evaluable:"+cls, fmt.Sprintf("JSON-like value printed as %s cannot be read and evaluated: %s", printed, o.ErrLine()), printed)
		return res
	}
	if ok, why := c12Equal(v, o.Val); !ok {
		res.Violate("evaluated-form-differs:"+cls, fmt.Sprintf("JSON-like value printed as %s evaluates to %s (%s)", printed, o.Val.SexpString(nil), why), printed)
		return res
	}
	if i%9 == 2 { // data saved as text can be sourced again
		path := filepath.Join(c.Work, fmt.Sprintf("c12-%d.zy", i))
		os.MkdirAll(c.Work, 0755)
		os.WriteFile(path, []byte("(def fromfile "+printed+")\n"), 0644)
		o2 := sut.Eval(env, fmt.Sprintf("(source %q)\nfromfile\n", path), 0)
		os.Remove(path)
		res.Ev("file_round_trips", 1)
		// and saved by the script itself: the printed text written with owritef, then sourced
		o3 := sut.Eval(env, fmt.Sprintf("(owritef (str vv) %q)\n(source %q)\n", path, path), 0)
		os.Remove(path)
		if o3.Err != nil || o3.Panic != "" {
			res.Violate("saved-text-not-sourceable:owritef:"+cls, fmt.Sprintf("(owritef (str v) f) then (source f) fails for v = %s: %s", printed, OutStr(o3)), printed)
		} else if ok, why := c12Equal(v, o3.Val); !ok {
			res.Violate("sourced-form-differs:owritef:"+cls, fmt.Sprintf("(owritef (str v) f) then (source f) gives %s for v = %s (%s)", o3.Val.SexpString(nil), printed, why), printed)
		}
		if o2.Err != nil || o2.Panic != "" {
			res.Violate("saved-text-not-sourceable:"+cls, fmt.Sprintf("file holding (def fromfile %s) cannot be sourced: %s", printed, OutStr(o2)), printed)
		} else if ok, why := c12Equal(v, o2.Val); !ok {
			res.Violate("sourced-form-differs:"+cls, fmt.Sprintf("sourcing the printed value %s gives %s (%s)", printed, o2.Val.SexpString(nil), why), printed)
		}
	}
	return res
}

func c12Literal(c *core.Ctx, k int) *core.Result {
	lits := c12Lits(thorN(c, 8, 24))
	l := lits[k/4]
	ctx := k % 4
	res := &core.Result{Nontrivial: true}
	text := []string{"%s\n", "  %s \n", "(first (list %s))\n", "(first [%s])\n"}[ctx]
	text = fmt.Sprintf(text, l.text)
	res.Input = text
	res.Hash = core.HashOf(text)
	res.Ev("literal_spellings", 1)
	env := zygo.NewZlisp()
	o := sut.Eval(env, text, 0)
	res.Evals++
	if o.Panic != "" {
		res.Violate("escaped-panic:"+o.Site, o.Panic, text)
		return res
	}
	cls := c12LitClass(l.text)
	if o.Err != nil {
		if !l.bad {
			res.Violate(fmt.Sprintf("literal-rejected:%s:ctx%d", cls, ctx), fmt.Sprintf("the literal %s is rejected: %s", l.text, o.ErrLine()), text)
		}
		return res
	}
	got := c07Show(o.Val)
	want := ""
	switch l.kind {
	case "int":
		want = fmt.Sprintf("int:%d", l.i)
	case "uint":
		want = fmt.Sprintf("uint:%d", l.u)
	case "float":
		want = c07fl(l.f)
	}
	if l.bad {
		if l.kind == "float" && (got == c07fl(math.Inf(1)) || got == c07fl(math.Inf(-1))) {
			return res
		}
		res.Violate(fmt.Sprintf("unrepresentable-literal-accepted:%s", cls), fmt.Sprintf("the literal %s does not fit its type but evaluated to %s instead of an error", l.text, got), text)
		return res
	}
	if got != want {
		res.Violate(fmt.Sprintf("literal-value:%s:ctx%d", cls, ctx), fmt.Sprintf("the literal %s must denote %s, got %s", l.text, want, got), text)
	}
	return res
}

func c12LitClass(t string) string {
	neg := ""
	if strings.HasPrefix(t, "-") {
		neg = "neg-"
		t = t[1:]
	}
	switch {
	case strings.HasSuffix(t, "ULL"):
		return neg + "ULL"
	case strings.HasPrefix(t, "0x"):
		return neg + "hex"
	case strings.HasPrefix(t, "0o"):
		return neg + "octal"
	case strings.HasPrefix(t, "0b"):
		return neg + "binary"
	case strings.Contains(strings.ToLower(t), "inf") || t == "NaN":
		return neg + "inf-nan"
	case strings.HasPrefix(t, "."):
		return neg + "leading-dot-fraction"
	case strings.ContainsAny(t, "eE"):
		return neg + "exponent"
	case strings.HasSuffix(t, "."):
		return neg + "trailing-dot"
	case strings.Contains(t, "."):
		return neg + "fraction"
	case strings.Contains(t, "_"):
		return neg + "decimal-underscore"
	case len(t) > 1 && t[0] == '0':
		return neg + "decimal-leading-zero"
	}
	return neg + "decimal"
}

func c12CharStr(c *core.Ctx, k int) *core.Result {
	r := c12Runes[k/2]
	res := &core.Result{Nontrivial: true}
	env := zygo.NewZlisp()
	cls := c12RuneClass(r)
	if k%2 == 0 {
		// a character literal written directly (for runes the source can spell) or with its escape
		lit := "'" + string(r) + "'"
		switch r {
		case '\n':
			lit = `'\n'`
		case '\t':
			lit = `'\t'`
		case '\r':
			lit = `'\r'`
		case '\a':
			lit = `'\a'`
		case '\\':
			lit = `'\\'`
		case '\'':
			lit = `'\''`
		default:
			if r < 0x20 || r == 0x7f || !utf8.ValidRune(r) || !unicode.IsPrint(r) {
				lit = strconv.QuoteRune(r) // what the printer emits
			}
		}
		text := lit + "\n"
		res.Input = text
		res.Hash = core.HashOf(text)
		res.Ev("char_literals", 1)
		o := sut.Eval(env, text, 0)
		res.Evals++
		if o.Panic != "" {
			res.Violate("escaped-panic:"+o.Site, o.Panic, text)
		} else if o.Err != nil {
			res.Violate("char-literal-rejected:"+cls, fmt.Sprintf("the character literal %s (U+%04X) is rejected: %s", lit, r, o.ErrLine()), text)
		} else if ch, ok := o.Val.(*zygo.SexpChar); !ok || ch.Val != r {
			res.Violate("char-literal-value:"+cls, fmt.Sprintf("the character literal %s must denote U+%04X, got %s", lit, r, sut.Show(o.Val)), text)
		}
		return res
	}
	// string literal: the rune written directly between two letters, and the documented escapes
	body := "x" + string(r) + "y"
	lit := `"` + body + `"`
	switch r {
	case '"':
		lit = `"x\"y"`
	case '\\':
		lit = `"x\\y"`
	}
	text := lit + "\n"
	if k%4 == 3 {
		text = `"a\tb\nc\\d\"e\rf\ag"` + "\n"
		body = "a\tb\nc\\d\"e\rf\ag"
	}
	res.Input = text
	res.Hash = core.HashOf(text)
	res.Ev("string_literals", 1)
	o := sut.Eval(env, text, 0)
	res.Evals++
	if o.Panic != "" {
		res.Violate("escaped-panic:"+o.Site, o.Panic, text)
	} else if o.Err != nil {
		res.Violate("string-literal-rejected:"+cls, fmt.Sprintf("the string literal %q is rejected: %s", text, o.ErrLine()), text)
	} else if st, ok := o.Val.(*zygo.SexpStr); !ok || st.S != body {
		res.Violate("string-literal-value:"+cls, fmt.Sprintf("the string literal %q must denote %q, got %s", text, body, sut.Show(o.Val)), text)
	}
	return res
}
