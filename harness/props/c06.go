package props

import (
	"fmt"
	"github.com/glycerine/zygomys/v9/zygo"
	"math"
	"strconv"
	"strings"

	"zyverif/core"
)

// C06 — infix blocks mean what the precedence table says (DESIGN §4.C06).

type c06op struct {
	s     string
	bp    int
	right bool
}

// the documented table (zygo/pratt.go InitInfixOps, README): assignment 10
// right, and/or 30 right, comparisons 40 left, + - 50 left, * / mod 60 left,
// ** 65 right, not 70 prefix, index/slice/dot/call 80.
var c06Ops = []c06op{
	{"=", 10, true}, {":=", 10, true}, {"+=", 10, true}, {"-=", 10, true},
	{"and", 30, true}, {"or", 30, true},
	{"==", 40, false}, {"!=", 40, false}, {"<", 40, false}, {"<=", 40, false}, {">", 40, false}, {">=", 40, false},
	{"+", 50, false}, {"-", 50, false},
	{"*", 60, false}, {"/", 60, false}, {"mod", 60, false},
	{"**", 65, true},
}

// operand spellings and how the expanded tree prints them
var c06Operands = [][2]string{
	{"a", "a"}, {"b", "b"}, {"c", "c"}, {"d", "d"}, {"1", "1"}, {"2", "2"}, {"-3", "-3"}, {"h.x.y", "h.x.y"}, {"(f a)", "(f a)"},
	{"q[1]", "(arrayidx q [1])"}, {"q[i+1]", "(arrayidx q [(+ i 1)])"}, {"{a + b}", "(infix [a + b])"}, {"2.5", "2.5"}, {"1e3", "1e+03"}, {"1e-3", "1e-03"},
	{"not a", "(not a)"}, {"q[1:2]", "(arrayidx q [1 : 2])"}, {"q[i]", "(arrayidx q [i])"}, {"(tr 7 b)", "(tr 7 b)"}, {"h.x", "h.x"}, {"-1", "-1"}, {"q[ 0 ]", "(arrayidx q [0])"},
	// postfix chains: a selector after an index or a call, an index after a dotted path or another index, open slices
	{"recs[1].b", "(hashidx (arrayidx recs [1]) .b)"}, {"(g a).b", "(hashidx (g a) .b)"}, {"h.k[0]", "(arrayidx h.k [0])"}, {"m[0][1]", "(arrayidx (arrayidx m [0]) [1])"},
	{"recs[0].c.d", "(hashidx (arrayidx recs [0]) .c.d)"}, {"q[i:]", "(arrayidx q [i :])"}, {"q[:i]", "(arrayidx q [: i])"}, {"q[i:j]", "(arrayidx q [i : j])"}, {"q[i:j][0]", "(arrayidx (arrayidx q [i : j]) [0])"},
}

type c06tok struct {
	s, printed string
	isOp       bool
	o          c06op
}

type c06parser struct {
	t []c06tok
	i int
}

// independent precedence climbing over the same token list
func (p *c06parser) expr(rbp int) string {
	left := p.t[p.i].printed
	p.i++
	for p.i < len(p.t) && p.t[p.i].isOp && p.t[p.i].o.bp > rbp {
		o := p.t[p.i].o
		p.i++
		nb := o.bp
		if o.right {
			nb = o.bp - 1
		}
		right := p.expr(nb)
		name := o.s
		if name == "=" || name == ":=" {
			name = "set"
		}
		left = "(" + name + " " + left + " " + right + ")"
	}
	return left
}

func c06word(s string) bool { return s == "and" || s == "or" || s == "mod" }

// render: mode 0 spaces everywhere, 1 none where legal, 2 mixed (PRNG).
// Never emits the two inherently ambiguous spellings (`a -1` with a blank only
// before the sign, `a--1`).
func c06Render(t []c06tok, mode int, r *core.Rng) string {
	var b strings.Builder
	for i, x := range t {
		if i > 0 {
			prev := t[i-1]
			before := true // blank between prev and x
			switch mode {
			case 1:
				before = false
			case 2:
				before = r.Bool()
			}
			if (prev.isOp && c06word(prev.s)) || (x.isOp && c06word(x.s)) || strings.HasPrefix(x.s, "not") {
				before = true
			}
			signed := !x.isOp && (strings.HasPrefix(x.s, "-") || strings.HasPrefix(x.s, "+"))
			if signed && prev.isOp && (strings.HasSuffix(prev.s, "-") || strings.HasSuffix(prev.s, "+")) {
				before = true // a- -3, never a--3
			}
			if signed && prev.isOp && prev.s == "<" {
				before = true // a<-3 would spell the channel operator <-
			}
			if !x.isOp && prev.isOp && (prev.s == "-" || prev.s == "+") && i >= 2 {
				// a binary sign with a blank before it needs one after it too ("a -1" is a literal)
				if strings.HasSuffix(b.String(), " "+prev.s) {
					before = true
				}
			}
			if before {
				b.WriteString(" ")
			}
		}
		b.WriteString(x.s)
	}
	return b.String()
}

type c06case struct {
	kind string // "tree" or "sem"
	toks []c06tok
	mode int
	sem  int
}

func c06Plan(c *core.Ctx) (n1, n2, n3, nrand, nsem int) {
	k := len(c06Ops)
	n1, n2 = k*3*4, k*k*3*3
	if c.Thor {
		n3 = k * k * k * 3
		return n1, n2, n3, 50000, 20000
	}
	return n1, n2, 0, 3000, 1500
}

func init() {
	core.Register(&core.Prop{
		ID:    "C06",
		Level: "exploration",
		Rule: "operator sequences over all 18 binary infix operators (= := += -= and or == != < <= > >= + - * / mod **) with operands rotating through identifiers, integer / negative / float / exponent literals, dotted paths, embedded calls, index a[i], a[i+1], slices a[i:j], nested blocks, not-prefixed operands and traced operands: all sequences of length 1 and 2 (quick) / 1..3 (thorough) in three spacings (blanks everywhere / none where legal / mixed), plus random sequences of 3..9 operators. " +
			"(a) the tree returned by (infixExpand {…}) must print exactly as the independent precedence-climbing parse of the same token list under the documented binding powers; (b) evaluating the block and evaluating the expanded prefix form in twin interpreters must give the same value/error-ness and the same effect trace. " +
			"(c) semantic programs with Go-computed expectations: random arithmetic/comparison/logic expressions evaluated by an independent Go evaluator of the table, statement lists separated by ; and newlines (value = last statement, order by trace), if/else chains, every go-for header shape (three-clause with each subset of its clauses empty, condition-only, forever+break, range over int/array/hash with one and two variables, labelled break/continue), compound assignment, ++/--, index/slice/dot reads and writes. non-trivial = distinct case with >=2 operators of different binding power or a control construct",
		Assumptions: []string{
			"tokenisation contract: a sign directly before a digit starts a literal exactly when the previous rune is start of text, blank, an opening bracket, one of , ; : or an operator rune; the inherently ambiguous spellings (a -1, a--1, and a<-1 which spells the channel operator <-) are never generated",
			"the printed form of operands inside the expanded tree (arrayidx, infix […], exponent normalisation) is taken from the unchanged tree's printer",
		},
		NCases: func(c *core.Ctx) int {
			a, b, d, e, f := c06Plan(c)
			return a + b + d + e + f
		},
		Describe: func(c *core.Ctx, i int) string {
			cs := c06Build(c, i)
			if cs.kind != "tree" {
				return fmt.Sprintf("semantic program %d", cs.sem)
			}
			return "{" + c06Render(cs.toks, cs.mode, core.NewRng(c.Seed, "C06r", i, 0)) + "}"
		},
		MustSee: []string{"tree_comparisons", "twin_evaluations", "semantic_programs", "no_space_renderings", "for_headers", "statement_lists"},
		Run:     c06Run,
	})
}

func c06Tok(o c06op) c06tok { return c06tok{s: o.s, printed: o.s, isOp: true, o: o} }
func c06Opd(k int) c06tok {
	x := c06Operands[((k%len(c06Operands))+len(c06Operands))%len(c06Operands)]
	return c06tok{s: x[0], printed: x[1]}
}

func c06Build(c *core.Ctx, i int) c06case {
	n1, n2, n3, nrand, _ := c06Plan(c)
	k := len(c06Ops)
	r := core.NewRng(c.Seed, "C06", i, 0)
	switch {
	case i < n1:
		o, mode, rot := c06Ops[i%k], (i/k)%3, i/(3*k)
		return c06case{kind: "tree", mode: mode, toks: []c06tok{c06Opd(rot*5 + i), c06Tok(o), c06Opd(rot*7 + i + 3)}}
	case i < n1+n2:
		j := i - n1
		o1, o2, mode, rot := c06Ops[j%k], c06Ops[(j/k)%k], (j/(k*k))%3, j/(3*k*k)
		return c06case{kind: "tree", mode: mode, toks: []c06tok{c06Opd(rot*5 + j), c06Tok(o1), c06Opd(rot*3 + j/k + 1), c06Tok(o2), c06Opd(rot*11 + j + 2)}}
	case i < n1+n2+n3:
		j := i - n1 - n2
		o1, o2, o3, mode := c06Ops[j%k], c06Ops[(j/k)%k], c06Ops[(j/(k*k))%k], (j/(k*k*k))%3
		return c06case{kind: "tree", mode: mode, toks: []c06tok{c06Opd(j), c06Tok(o1), c06Opd(j/k + 1), c06Tok(o2), c06Opd(j/7 + 2), c06Tok(o3), c06Opd(j/3 + 5)}}
	case i < n1+n2+n3+nrand:
		n := 3 + r.N(7)
		t := []c06tok{c06Opd(r.N(100))}
		for x := 0; x < n; x++ {
			t = append(t, c06Tok(c06Ops[r.N(k)]), c06Opd(r.N(100)))
		}
		return c06case{kind: "tree", mode: r.N(3), toks: t}
	}
	return c06case{kind: "sem", sem: i - (n1 + n2 + n3 + nrand)}
}

const c06Setup = "(def a 6) (def b 4) (def c 3) (def d 2) (def i 1) (def j 3) (def q [10 20 30 40]) (def h (hash x: (hash y: 5) k: [8 9])) (defn f [z] (* z 10)) (def recs [(hash b: 3 c: (hash d: 4)) (hash b: 7 c: (hash d: 2))]) (defn g [z] (hash b: (+ z 1))) (def m [[1 2] [3 4]])\n"

func c06Run(c *core.Ctx, i int) *core.Result {
	cs := c06Build(c, i)
	if cs.kind == "sem" {
		return c06Sem(c, i, cs.sem)
	}
	r := core.NewRng(c.Seed, "C06r", i, 0)
	src := c06Render(cs.toks, cs.mode, r)
	res := &core.Result{Input: "{" + src + "}", Hash: core.HashOf(src)}
	p := &c06parser{t: cs.toks}
	want := "(quote " + p.expr(0) + ")"
	bps := map[int]bool{}
	nops := 0
	for _, t := range cs.toks {
		if t.isOp {
			bps[t.o.bp] = true
			nops++
		}
	}
	res.Nontrivial = len(bps) >= 2 || nops >= 3
	if cs.mode == 1 {
		res.Ev("no_space_renderings", 1)
	}
	s := NewSutRun(true)
	o := s.Eval("(str (infixExpand {"+src+"}))\n", 0)
	res.Evals++
	res.Ev("tree_comparisons", 1)
	got := OutStr(o)
	if o.Panic != "" {
		res.Violate("escaped-panic:"+o.Site, o.Panic, res.Input)
		return res
	}
	if o.Err == nil {
		got = strings.TrimSuffix(strings.TrimPrefix(got, `"`), `"`)
		got = strings.ReplaceAll(got, `\"`, `"`)
	}
	if got != want {
		var seq []string
		for _, t := range cs.toks {
			if t.isOp {
				seq = append(seq, t.s)
			}
		}
		key := "tree:" + strings.Join(seq, " ")
		if len(seq) > 2 {
			key = "tree:long-sequence"
		}
		if cs.mode != 0 {
			key += fmt.Sprintf(":spacing%d", cs.mode)
		}
		res.Violate(key, fmt.Sprintf("{%s} must expand to %s, got %s", src, want, got), res.Input)
		return res
	}
	// twin evaluation: block vs its prefix form
	tree := strings.TrimSuffix(strings.TrimPrefix(want, "(quote "), ")")
	a, b := NewSutRun(true), NewSutRun(true)
	a.Eval(c06Setup, 0)
	b.Eval(c06Setup, 0)
	oa := a.Eval("{"+src+"}\n", 200000)
	ob := b.Eval(tree+"\n", 200000)
	res.Evals += 2
	res.Ev("twin_evaluations", 1)
	if oa.Panic != "" || ob.Panic != "" {
		res.Violate("escaped-panic:"+oa.Site+ob.Site, oa.Panic+ob.Panic, res.Input)
		return res
	}
	va, vb := OutStr(oa), OutStr(ob)
	if oa.Err != nil {
		va = "ERR"
	}
	if ob.Err != nil {
		vb = "ERR"
	}
	if va != vb || strings.Join(a.Trace, ",") != strings.Join(b.Trace, ",") {
		res.Violate("twin:block-vs-prefix-form", fmt.Sprintf("{%s} evaluates to %s (trace %v) but its prefix form %s evaluates to %s (trace %v)", src, OutStr(oa), a.Trace, tree, OutStr(ob), b.Trace), res.Input)
		return res
	}
	// the block reaches the infix parser while a macro is being expanded (macro bodies run in a duplicate of
	// the interpreter): the translation must be the same one
	m := NewSutRun(true)
	m.Eval(c06Setup, 0)
	om := m.Eval("(defmac viaexp9 [] (infixExpand {"+src+"})) (str (viaexp9))\n", 200000)
	res.Evals++
	res.Ev("blocks_translated_during_macro_expansion", 1)
	if om.Panic != "" {
		res.Violate("escaped-panic:"+om.Site, om.Panic, res.Input)
		return res
	}
	gm := OutStr(om)
	if om.Err == nil {
		gm = strings.ReplaceAll(strings.TrimSuffix(strings.TrimPrefix(gm, `"`), `"`), `\"`, `"`)
	}
	if gm != tree {
		res.Violate("tree:translated-during-macro-expansion", fmt.Sprintf("(defmac viaexp9 [] (infixExpand {%s})) (viaexp9) must give %s, got %s", src, tree, gm), res.Input)
		return res
	}
	// and evaluated there: a macro that evaluates its block argument while expanding gives the block's value
	// (judged when that value is a number or boolean, which evaluates to itself as the expansion)
	if _, isInt := oa.Val.(*zygo.SexpInt); oa.Err == nil && (isInt || va == "true" || va == "false") && !strings.Contains(src, "=") {
		e := NewSutRun(true)
		e.Eval(c06Setup, 0)
		oe := e.Eval("(defmac viaeval9 [blk9] (eval blk9)) (viaeval9 {"+src+"})\n", 200000)
		res.Evals++
		res.Ev("blocks_evaluated_during_macro_expansion", 1)
		if oe.Panic != "" {
			res.Violate("escaped-panic:"+oe.Site, oe.Panic, res.Input)
			return res
		}
		if ve := OutStr(oe); oe.Err != nil || ve != va {
			res.Violate("twin:block-evaluated-during-macro-expansion", fmt.Sprintf("(defmac viaeval9 [blk9] (eval blk9)) (viaeval9 {%s}) must give %s like the block itself, got %s", src, va, ve), res.Input)
		}
	}
	return res
}

// ---- semantic programs with Go-computed expectations ----

type c06val struct {
	isBool bool
	i      int64
	b      bool
	f      float64
	isF    bool
	err    bool
}

func (v c06val) String() string {
	switch {
	case v.err:
		return "ERR"
	case v.isBool:
		return fmt.Sprint(v.b)
	case v.isF:
		return "f:" + strconv.FormatFloat(v.f, 'g', -1, 64)
	}
	return strconv.FormatInt(v.i, 10)
}

type c06etok struct {
	op  string // "" for operand
	val c06val
	not bool
}

type c06eval struct {
	t []c06etok
	i int
}

var c06bp = map[string][2]int{"and": {30, 1}, "or": {30, 1}, "==": {40, 0}, "!=": {40, 0}, "<": {40, 0}, "<=": {40, 0}, ">": {40, 0}, ">=": {40, 0}, "+": {50, 0}, "-": {50, 0}, "*": {60, 0}, "/": {60, 0}, "mod": {60, 0}, "**": {65, 1}}

type c06node struct {
	op   string
	l, r *c06node
	val  c06val
	not  bool
}

func (p *c06eval) parse(rbp int) *c06node {
	t := p.t[p.i]
	p.i++
	left := &c06node{val: t.val, not: t.not}
	for p.i < len(p.t) && p.t[p.i].op != "" && c06bp[p.t[p.i].op][0] > rbp {
		op := p.t[p.i].op
		p.i++
		nb := c06bp[op][0] - c06bp[op][1]
		right := p.parse(nb)
		left = &c06node{op: op, l: left, r: right}
	}
	return left
}

func c06truthy(v c06val) bool {
	if v.isBool {
		return v.b
	}
	if v.isF {
		return true
	}
	return v.i != 0
}

func (n *c06node) eval() c06val {
	if n.op == "" {
		if n.not {
			return c06val{isBool: true, b: !c06truthy(n.val)}
		}
		return n.val
	}
	if n.op == "and" || n.op == "or" {
		l := n.l.eval()
		if l.err {
			return l
		}
		if c06truthy(l) == (n.op == "or") {
			return l
		}
		return n.r.eval()
	}
	l, r := n.l.eval(), n.r.eval()
	if l.err || r.err {
		return c06val{err: true}
	}
	num := func(v c06val) (float64, bool) {
		if v.isBool {
			return 0, false
		}
		if v.isF {
			return v.f, true
		}
		return float64(v.i), true
	}
	switch n.op {
	case "==", "!=", "<", "<=", ">", ">=":
		var cmp int
		if l.isBool || r.isBool {
			if !(l.isBool && r.isBool) {
				return c06val{err: true}
			}
			switch {
			case l.b == r.b:
				cmp = 0
			case !l.b:
				cmp = -1
			default:
				cmp = 1
			}
		} else if !l.isF && !r.isF {
			switch {
			case l.i < r.i:
				cmp = -1
			case l.i > r.i:
				cmp = 1
			}
		} else {
			x, _ := num(l)
			y, _ := num(r)
			switch {
			case x < y:
				cmp = -1
			case x > y:
				cmp = 1
			}
		}
		return c06val{isBool: true, b: cmpRes(n.op, cmp)}
	}
	if l.isBool || r.isBool {
		return c06val{err: true}
	}
	if l.isF || r.isF {
		x, _ := num(l)
		y, _ := num(r)
		switch n.op {
		case "+":
			return c06val{isF: true, f: x + y}
		case "-":
			return c06val{isF: true, f: x - y}
		case "*":
			return c06val{isF: true, f: x * y}
		case "/":
			return c06val{isF: true, f: x / y}
		case "**":
			return c06val{isF: true, f: math.Pow(x, y)}
		}
		return c06val{err: true} // mod on floats: not generated
	}
	switch n.op {
	case "+":
		return c06val{i: l.i + r.i}
	case "-":
		return c06val{i: l.i - r.i}
	case "*":
		return c06val{i: l.i * r.i}
	case "/":
		if r.i == 0 {
			return c06val{err: true}
		}
		if l.i%r.i == 0 {
			return c06val{i: l.i / r.i}
		}
		return c06val{isF: true, f: float64(l.i) / float64(r.i)}
	case "mod":
		if r.i == 0 {
			return c06val{err: true}
		}
		return c06val{i: l.i % r.i}
	case "**":
		return c06val{i: int64(math.Pow(float64(l.i), float64(r.i)))}
	}
	return c06val{err: true}
}

func cmpRes(op string, c int) bool {
	switch op {
	case "<":
		return c < 0
	case ">":
		return c > 0
	case "<=":
		return c <= 0
	case ">=":
		return c >= 0
	case "==":
		return c == 0
	}
	return c != 0
}

func c06Sem(c *core.Ctx, i int, k int) *core.Result {
	r := core.NewRng(c.Seed, "C06s", i, 0)
	res := &core.Result{Nontrivial: true}
	res.Ev("semantic_programs", 1)
	var text, want string
	wantTrace := ""
	switch k % 10 {
	case 0, 1, 2, 3: // random arithmetic / comparison / logic with an independent evaluator
		for try := 0; ; try++ {
			n := 2 + r.N(6)
			var toks []c06etok
			var parts []string
			arith := []string{"+", "-", "*", "/", "mod", "**"}
			all := []string{"+", "-", "*", "/", "mod", "**", "==", "!=", "<", "<=", ">", ">=", "and", "or"}
			opd := func(afterPow bool) {
				v := int64(r.N(9) + 1)
				if afterPow {
					v = int64(r.N(3))
				}
				if !afterPow && r.N(6) == 0 {
					toks = append(toks, c06etok{val: c06val{isBool: true, b: r.Bool()}})
					parts = append(parts, fmt.Sprint(toks[len(toks)-1].val.b))
					return
				}
				toks = append(toks, c06etok{val: c06val{i: v}})
				parts = append(parts, strconv.FormatInt(v, 10))
			}
			opd(false)
			for x := 0; x < n; x++ {
				op := all[r.N(len(all))]
				if r.N(2) == 0 {
					op = arith[r.N(len(arith))]
				}
				toks = append(toks, c06etok{op: op})
				parts = append(parts, op)
				opd(op == "**")
			}
			p := &c06eval{t: toks}
			v := p.parse(0).eval()
			if (v.err || (v.isF && (math.IsInf(v.f, 0) || math.IsNaN(v.f))) || (!v.isBool && !v.isF && (v.i > 1<<40 || v.i < -(1<<40)))) && try < 20 {
				continue
			}
			// spacing: blanks or none around symbolic operators
			var b strings.Builder
			tight := r.Bool()
			for x, s := range parts {
				if x > 0 {
					isop := x%2 == 1
					o := s
					if !isop {
						o = parts[x-1]
					}
					if !tight || c06word(o) {
						b.WriteString(" ")
					}
				}
				b.WriteString(s)
			}
			text = "{" + b.String() + "}\n"
			want = v.String()
			break
		}
	case 4: // statement lists: ; and newline, value of the last statement, order by trace
		x, y, z := int64(r.N(9)+1), int64(r.N(9)+1), int64(r.N(9)+1)
		sep := []string{"; ", "\n", " ;\n  ", ";"}[r.N(4)]
		text = fmt.Sprintf("{u := (tr 1 %d)%sv := (tr 2 (* u %d))%sv - (tr 3 %d)}\n", x, sep, y, sep, z)
		want = strconv.FormatInt(x*y-z, 10)
		wantTrace = fmt.Sprintf("1:%d,2:%d,3:%d", x, x*y, z)
		res.Ev("statement_lists", 1)
	case 5: // three-clause for, compound assignment, ++
		n, m := int64(r.N(6)), int64(r.N(5)+1)
		switch r.N(6) { // the full header and every header with empty clauses
		case 0:
			text = fmt.Sprintf("{s := 0; i := 0; for ; i < %d; i++ { s += i * %d }; s}\n", n, m)
		case 1:
			text = fmt.Sprintf("{s := 0; for i := 0; ; i++ { if i >= %d { break }; s += i * %d }; s}\n", n, m)
		case 2:
			text = fmt.Sprintf("{s := 0; for i := 0; i < %d; { s += i * %d; i++ }; s}\n", n, m)
		case 3:
			text = fmt.Sprintf("{s := 0; i := 0; for ; ; { if i >= %d { break }; s += i * %d; i++ }; s}\n", n, m)
		case 4:
			text = fmt.Sprintf("{s := 0; i := 0; for ; i < %d; { s += i * %d; i++ }; s}\n", n, m)
		default:
			text = fmt.Sprintf("{s := 0; for i := 0; i < %d; i++ { s += i * %d }; s}\n", n, m)
		}
		want = strconv.FormatInt(m*n*(n-1)/2, 10)
		res.Ev("for_headers", 1)
	case 6: // range over int / array (one and two variables) / hash; condition-only; forever
		n := int64(r.N(5) + 1)
		switch r.N(6) {
		case 0:
			text, want = fmt.Sprintf("{s := 0; for i := range %d { s += i }; s}\n", n), strconv.FormatInt(n*(n-1)/2, 10)
		case 1:
			text, want = "{s := 0; arr := [10 20 30 40]; for i, v := range arr { s += i * v }; s}\n", "200"
		case 2:
			text, want = "{s := 0; arr := [10 20 30 40]; for i := range arr { s += i }; s}\n", "6"
		case 3:
			text, want = "{s := 0; hs := (hash a:1 b:2 c:4); for k, v := range hs { s += v }; s}\n", "7"
		case 4:
			text, want = fmt.Sprintf("{s := 0; for s < %d { s += 3 }; s}\n", n*4), strconv.FormatInt(((n*4+2)/3)*3, 10)
		case 5:
			text, want = fmt.Sprintf("{s := 0; for { s++; if s > %d { break } }; s}\n", n), strconv.FormatInt(n+1, 10)
		}
		res.Ev("for_headers", 1)
	case 7: // labelled break / continue, simulated in Go
		A, B, J, I := r.N(4)+1, r.N(4)+1, r.N(4), r.N(4)
		cnt := 0
	outer:
		for i := 0; i < A; i++ {
			for j := 0; j < B; j++ {
				if j == J {
					continue outer
				}
				if i == I {
					break outer
				}
				cnt++
			}
		}
		text = fmt.Sprintf("{n := 0; outer: for i := 0; i < %d; i++ { for j := 0; j < %d; j++ { if j == %d { continue outer }; if i == %d { break outer }; n++ } }; n}\n", A, B, J, I)
		if r.N(2) == 0 { // the labelled loop is the first statement of its block
			text = fmt.Sprintf("(def n 0) {outer: for i := 0; i < %d; i++ { for j := 0; j < %d; j++ { if j == %d { continue outer }; if i == %d { break outer }; n++ } }} n\n", A, B, J, I)
		}
		want = strconv.Itoa(cnt)
		res.Ev("for_headers", 1)
	case 8: // if / else chains
		x, y := int64(r.N(5)), int64(r.N(5))
		text = fmt.Sprintf("{x := %d; y := %d; if x > y { 1 } else { if x == y { 2 } else { 3 } }}\n", x, y)
		switch {
		case x > y:
			want = "1"
		case x == y:
			want = "2"
		default:
			want = "3"
		}
	case 9: // index / slice / dot reads and writes, ++/--, precedence with indexing
		arr := []int64{int64(r.N(9) + 1), int64(r.N(9) + 1), int64(r.N(9) + 1), int64(r.N(9) + 1)}
		i1, i2 := r.N(4), r.N(4)
		w := int64(r.N(50))
		text = fmt.Sprintf("{q := [%d %d %d %d]; h := (hash x: (hash y: %d)); q[%d] = %d; h.x.y = h.x.y + 1; z := q[%d] * 2 + q[%d] ** 2 - h.x.y; z++; z}\n", arr[0], arr[1], arr[2], arr[3], w, i1, w, i1, i2)
		arr[i1] = w
		want = strconv.FormatInt(arr[i1]*2+arr[i2]*arr[i2]-(w+1)+1, 10)
		if r.N(3) == 0 {
			// a nested block that is translated again every time it runs (call arguments are compiled at run
			// time): open and closed slices and selector chains must mean the same on every execution
			lo, hi := 1+r.N(2), 3+r.N(2)
			text = fmt.Sprintf("(def a [1 2 3 4 5]) (def recs [(hash b: 3) (hash b: 7)]) (defn ident [x] x) (defn tl [i] (ident {a[i:]})) (defn hd [j] (ident {a[:j]})) (defn sl [i j] (ident {a[i:j]})) (defn rb [i] (ident {1 + recs[i].b}))\n"+
				"(def out []) (for [(def k 0) (< k 2) (def k (+ k 1))] (set out (concat out [(len (tl %d)) (len (hd %d)) (len (sl %d %d)) (rb 1) (rb 0)])))\n(list out (tl %d) (sl %d %d) {zz := 0; for t := 0; t < 3; t++ { zz += (len (ident {a[t:]})) }; zz})\n", lo, hi, lo, hi, lo, lo, hi)
			one := fmt.Sprintf("%d %d %d 8 4", 5-lo, hi, hi-lo)
			var tail, mid []string
			for x := lo; x < 5; x++ {
				tail = append(tail, fmt.Sprint(x+1))
			}
			for x := lo; x < hi; x++ {
				mid = append(mid, fmt.Sprint(x+1))
			}
			want = fmt.Sprintf("([%s %s] [%s] [%s] 12)", one, one, strings.Join(tail, " "), strings.Join(mid, " "))
		}
	}
	// a comment directly after the opening brace changes nothing
	if at := strings.Index(text, "{"); at >= 0 && r.N(3) == 0 {
		cm := []string{" // note\n ", " /* note */ ", "// a: b\n", " /* a: 1 */ // and more\n "}[r.N(4)]
		text = text[:at+1] + cm + text[at+1:]
		res.Ev("blocks_with_leading_comment", 1)
	}
	res.Input = text
	res.Hash = core.HashOf(text)
	s := NewSutRun(true)
	o := s.Eval(text, 500000)
	res.Evals++
	got := OutStr(o)
	if o.Panic != "" {
		res.Violate("escaped-panic:"+o.Site, o.Panic, text)
		return res
	}
	if o.Err != nil {
		got = "ERR"
	}
	if got != want {
		res.Violate(fmt.Sprintf("semantic:kind%d", k%10), fmt.Sprintf("%s must evaluate to %s, got %s", strings.TrimSpace(text), want, OutStr(o)), text)
	} else if wantTrace != "" && strings.Join(s.Trace, ",") != wantTrace {
		res.Violate("semantic:statement-order", fmt.Sprintf("statements must run in order: want trace %s, got %v", wantTrace, s.Trace), text)
	}
	return res
}
