package props

import (
	"fmt"

	"zyverif/core"
	"zyverif/lang"
)

// C03 — lexical scoping (DESIGN §4.C03): tiny name pool, deep nests of
// fn/defn/let/letseq/newScope/for/def/set, closures as arguments and results,
// dynamic-scope canaries, and a battery that calls every global closure after
// the program (i.e. after its creator returned).

func c03Gen(c *core.Ctx, i int) (*lang.G, []*lang.N) {
	for try := 0; ; try++ {
		g := &lang.G{R: core.NewRng(c.Seed, "C03", i, try), C: lang.Cfg{
			Depth: 4 + i%4, Pool: []string{"a", "b", "c"}, HigherOrder: true, Variadic: i%5 == 0, TrOneIn: 3,
			Canary: i%2 == 0, Try: i%2 == 0, MaxStmts: 4, RetCloOneIn: 2, Recursion: i%3 == 0, Alias: true,
		}}
		prog := g.Program()
		max := thorN(c, 140, 220)
		if (lang.Count(prog) <= max && g.NClosures > 0) || try >= 8 {
			return g, prog
		}
	}
}

func init() {
	core.Register(&core.Prop{
		ID:    "C03",
		Level: "exploration",
		Rule: "random nests (depth 4-7) of fn/defn/let/letseq/newScope/for/def/set over the name pool {a,b,c} so that shadowing and capture collisions occur in almost every program; closures are defined with defn inside functions, created in loops, passed as arguments, returned from their creator and called later; " +
			"inside functions a pool name that is not lexically visible is sometimes read (dynamic-scope canary, raw or behind an error-absorbing host callback). After the program every global function is called twice with different arguments (and a returned closure is applied), so captured variables are used after the creating activation returned. Oracle: reference evaluator with lexical frame chains (value, error-ness, trace). " +
			"Plus 20 scoping programs with hand-computed expectations (own locals per activation also after a tail self call of a zero-parameter function, parallel let, names defined after the closure in its block, caller's locals invisible to callees also under loops and lets, sibling closures, set/def resolution, three nesting levels with the outer function called twice). non-trivial = distinct program in which the reference observed >=1 closure applied after its creating activation had returned, >=1 shadowed name and >=2 activations of one function",
		Assumptions: []string{
			"reference evaluator = intended lexical semantics (calibrated, 0 disagreements on the unchanged tree)",
			"errors compared by error-ness only",
		},
		NCases:  func(c *core.Ctx) int { return thorN(c, 6000, 80000) + len(c03Fixed) },
		MustSee: []string{"escaped_closure_calls", "shadowed_names", "canary_reads", "battery_calls", "fixed_programs"},
		Run:     c03Run,
	})
}

func c03Run(c *core.Ctx, i int) *core.Result {
	if base := thorN(c, 6000, 80000); i >= base {
		return c03FixedRun(c, i-base)
	}
	g, prog := c03Gen(c, i)
	text := lang.Plain.Program(prog)
	res := &core.Result{Input: text, Hash: core.HashOf(text)}
	ref := &lang.R{MaxSteps: 20000}
	genv := lang.NewEnv(nil)
	rv, rerr := ref.Run(prog, genv)
	if rerr != nil && rerr.Kind == "budget" {
		res.Verdict, res.Key = core.Inconclusive, "ref-budget"
		return res
	}
	s := NewSutRun(false)
	o := s.Eval(text, int64(400*ref.Steps+100000))
	res.Evals = 1
	res.Ev("vm_steps", o.Steps)
	if key, detail := CompareRun(rv, rerr, ref.Trace, o, s.Trace); key != "" {
		res.Violate(key, detail, text)
	}
	// battery: every global function, twice, after the program has finished
	if res.Verdict != core.Violated {
		RunBattery(res, g, ref, genv, s, text, []int64{1, 5}, fmt.Sprintf(" (reference: %s, interpreter: %s)", RefStr(rv, rerr), OutStr(o)))
	}
	twice := false
	for _, n := range ref.Activations {
		if n >= 2 {
			twice = true
		}
	}
	res.Ev("escaped_closure_calls", int64(ref.EscapedCalls))
	res.Ev("shadowed_names", int64(g.NShadow))
	res.Ev("canary_reads", int64(g.NCanary))
	res.Ev("closures_created_static", int64(g.NClosures))
	res.Ev("absorbed_errors", int64(ref.Absorbed))
	res.Nontrivial = ref.EscapedCalls > 0 && g.NShadow > 0 && twice
	return res
}
