package props

import (
	"fmt"

	"github.com/glycerine/zygomys/v9/zygo"
	"sort"
	"strings"

	"zyverif/core"
	"zyverif/lang"
	"zyverif/sut"
)

// C05 — errors are contained (DESIGN §4.C05). fault_enumeration: for every
// program, EVERY k-th execution of the fault point (inj) is made to fail, in
// each failure kind, and the interpreter is judged afterwards.

func c05Gen(c *core.Ctx, i int) (*lang.G, []*lang.N, int) {
	for try := 0; ; try++ {
		g := &lang.G{R: core.NewRng(c.Seed, "C05", i, try), C: lang.Cfg{
			Depth: 3 + i%3, Pool: []string{"a", "b", "c"}, Inj: true, Try: true, HigherOrder: i%3 == 0, Variadic: i%4 == 0,
			Data: i%2 == 1, TrOneIn: 3, MaxStmts: 4, Recursion: i%3 == 1,
		}}
		prog := g.Program()
		r0 := &lang.R{MaxSteps: 20000}
		_, err := r0.Run(prog, lang.NewEnv(nil))
		ok := (err == nil || err.Kind != "budget") && r0.InjN > 0 && r0.InjN <= 40 && lang.Count(prog) <= 200
		if ok || try >= 40 {
			return g, prog, r0.InjN
		}
	}
}

func init() {
	core.Register(&core.Prop{
		ID:    "C05",
		Level: "fault_enumeration",
		Rule: "random core-language programs with fault points (inj id) in every syntactic position (loop init/test/advance/body, let bindings and bodies, arguments, callee bodies at call depth 0-5, map/apply, hash literals, closures called later, inside an error-absorbing host callback (try (fn [] …)) that re-enters the VM through the public Apply and handles the error). " +
			"For each program the fault-free run counts the n dynamic executions of inj; then for EVERY k<=n and each failure kind (host function returns an error; Go panic inside the host function) the program is run in a fresh interpreter with the k-th inj failing; additionally every static fault point is replaced by a form that fails to compile, a parse error is appended, and (thorough) every VM instruction index k of short programs is failed through the step hook. Host-API sequences of 24 steps (EvalString, LoadString+Run, several loads before one Run, EvalExpressions, top-level Apply, Duplicate) mixed with failing steps (compile failure of a load with and without an earlier pending load, unbound function, runtime failure below let and loop, parse error, wrong-arity Apply, a macro expanding into itself, a macro with a malformed expansion, a stashed lazy argument whose force fails twice and then succeeds): errors returned, values of a global model, rest state and read-back of every global. Position sweep: 71 templates (every sub-form position of literals, templates, special forms, infix constructs, declarations, higher-order builtins) x 21 failing forms (6 that fail to compile, a host error, a host panic, unbound function/variable, index, division, type error, a macro that expands into itself, a macro whose expansion fails to compile, a failure 30 calls deep, a hash lookup whose computed key fails with and without a default, a macro / function / typed function defined again with a body that does not compile — the earlier definitions must still answer): the evaluation must fail, the VM be at rest, earlier definitions survive, nothing after the failure run, and a battery (definitions, loops, recursion, a new macro, range/++, a lazy formal, a misplaced break that must be rejected, an infix loop) answer as usual. " +
			"Oracles: error returned and names the injected id (never a value), trace up to the failure equals the reference's, VM at rest, and a follow-up battery (every global read back, every global function called, new definitions, loop, let, recursion, empty input) answers exactly as computed from the reference evaluator's state after the same k-th failure. " +
			"non-trivial = distinct (program, k, kind) whose failure happened at call depth>=1 or inside a loop/let/try, counted per program text",
		Assumptions: []string{
			"reference evaluator keeps all side effects made before the failure and defines nothing after it (calibrated: 0 disagreements on the unchanged tree)",
			"for compile-error and instruction-level faults no model of the exact failure time is assumed: only error-returned, rest state, effect trace being a prefix of the fault-free trace, and the model-free part of the battery are judged",
		},
		NCases:  func(c *core.Ctx) int { return thorN(c, 1500, 8000) + len(c05Pos)*len(c05Faults) + thorN(c, 80, 800) },
		Chunk:   50,
		MustSee: []string{"injected_err", "injected_panic", "absorbed_by_try", "battery_questions", "compile_faults", "parse_faults", "position_sweep", "api_failing_steps"},
		Run:     c05Run,
	})
}

var c05Generic = []struct{ text, want string }{
	{"(def zz 5) (+ zz 1)\n", "6"},
	{"(for [(def zi 0) (< zi 3) (def zi (+ zi 1))] (set zz (+ zz zi))) zz\n", "8"},
	{"(let [zq 2] (* zq 21))\n", "42"},
	{"(defn zf [x] (cond (< x 1) 0 (+ x (zf (- x 1))))) (zf 4)\n", "10"},
	{"\n", "nil"},
	{"((fn [a b] (- a b)) 9 4)\n", "5"},
}

func c05Names(prog []*lang.N) []string {
	set := map[string]bool{"a": true, "b": true, "c": true}
	lang.Walk(prog, func(n *lang.N) {
		if n.K == "def" || n.K == "defn" {
			set[n.S] = true
		}
	})
	var out []string
	for k := range set {
		out = append(out, k)
	}
	sort.Strings(out)
	return out
}

// battery questions the interpreter after a failure; model=true also compares
// with the reference state genv.
func c05Battery(res *core.Result, tag, text string, s *SutRun, ref *lang.R, genv *lang.Env, g *lang.G, names []string, model bool) {
	s.InjK = 0
	bad := func(key, detail string) {
		res.Violate(tag+":battery:"+key, detail, text)
	}
	if model {
		for _, name := range names {
			want := "ERR"
			if p, ok := genv.M[name]; ok {
				want = lang.Show(*p)
			}
			o := s.Eval(name+"\n", 0)
			res.Ev("battery_questions", 1)
			got := OutStr(o)
			if o.Err != nil {
				got = "ERR"
			}
			if want != got {
				bad("global-value", fmt.Sprintf("after the failure, global %s: reference state has %s, interpreter answers %s", name, want, got))
				return
			}
		}
		for _, f := range g.TopFns {
			if _, ok := genv.M[f.Name]; !ok {
				continue
			}
			call := []*lang.N{lang.BatteryCall(f, 2)}
			bt := lang.Plain.Program(call)
			ref.Trace, s.Trace, ref.Steps, ref.InjK, s.InjN, ref.InjN = nil, nil, 0, 0, 0, 0
			bv, berr := ref.Run(call, genv)
			if berr != nil && berr.Kind == "budget" {
				return
			}
			o := s.Eval(bt, int64(400*ref.Steps+100000))
			res.Ev("battery_questions", 1)
			if key, detail := CompareRun(bv, berr, ref.Trace, o, s.Trace); key != "" {
				bad("call:"+key, fmt.Sprintf("after the failure, %s: %s", strings.TrimSpace(bt), detail))
				return
			}
		}
	}
	for _, q := range c05Generic {
		o := s.Eval(q.text, 0)
		res.Ev("battery_questions", 1)
		if got := OutStr(o); got != q.want {
			bad("generic", fmt.Sprintf("after the failure, %q should give %s, got %s", q.text, q.want, got))
			return
		}
		if d := sut.DepthsOf(s.Env); !atRest(d) || d.Data != 0 {
			bad("not-at-rest", fmt.Sprintf("after follow-up %q the VM is not at rest: %v", q.text, d))
			return
		}
	}
}

func isPrefix(a, b []string) bool {
	if len(a) > len(b) {
		return false
	}
	for i := range a {
		if a[i] != b[i] {
			return false
		}
	}
	return true
}

// Position sweep: every sub-form position of every special form / literal / infix construct
// (X) holds, in turn, each failing form: the evaluation must return an error (never a
// value), leave the VM at rest, keep what was defined before, define nothing after.
var c05Pos = []string{
	"[1 X 2]", "[X]", "^(a ~X)", "^[a ~X]", "^{a: ~X}", "^(a ~@(list X))", "^(a (b ~X))", "(assert X)", "{a: X}", "(hash a: X)", "(list 1 X)", "(and 1 X 2)", "(and 1 X)", "(or 0 X)", "(or 0 X 3)",
	"(cond X 1 2)", "(cond 0 1 X)", "(cond 1 X 2)", "(cond 0 1 X 2 3)", "(let [q X] q)", "(letseq [p 1 q X] q)", "(let [q 1] X q)", "(let [q 1] q X)", "(begin X 1)", "(begin 1 X)", "(newScope X 1)", "(newScope 1 X)",
	"(for [X (< 2 1) 1] 1)", "(for [(def i9 0) (and (< i9 1) X) (def i9 (+ i9 1))] 1)", "(for [(def i9 0) (< i9 1) (begin (def i9 (+ i9 1)) X)] 1)", "(for [(def i9 0) (< i9 1) (def i9 (+ i9 1))] X)", "(for [(def i9 0) (< i9 1) (def i9 (+ i9 1))] X 2)",
	"(def d9 X)", "(set before9 X)", "(mdef u9 v9 (list 1 X))", "(x9 = X)", "(x9 y9 = 1 X)", "{x9 = X}", "{x9 := 1 + X}", "{1 + X}", "{X * 2}", "{if X { 1 } else { 2 }}", "{if true { X }}", "{if false { 1 } else { X }}",
	"{for i9 := 0; i9 < 1; i9++ { X }}", "{for i9 := range 2 { X }}", "((fn [] X))", "((fn [z] z) X)", "(defn g9 [] X) (g9)", "(defn g9 [] 1 X 2) (g9)", "(defmac m9 [] X) (m9)", "(defmac m9 [] ^(+ 1 ~X)) (m9)",
	"(range k9 v9 [1] X)", "(range k9 v9 [X] 1)", "(package \"p9\" (def A X))", "(map (fn [z] X) [1 2])", "(map (fn [z] X) (list 1 2))", "(apply (fn [z] X) [1])", "(func h9 [] [r:int64] (return X)) (h9)", "(func h9 [] [r:int64 q:int64] (return 1 X)) (h9)",
	"(+ 1 X)", "(+ 1 (+ 2 X))", "(str X)", "(aget [1 2] X)", "(hset (hash) a: X)", "(first [X])", "(not X)", "(len [X X])", "(idw X)", "(eval (quote X))", "(eval X)",
}

var c05Faults = []string{"(let)", "(cond)", "(for)", "(and)", "(quote)", "(fn)", "(boom 7)", "(pboom 7)", "(undefinedfn9 1)", "(aget [1] 9)", "(/ 1 0)", "undefinedvar9", "(+ 1 \"s\")", "(forever9 1)", "(badm9 1)", "(deepfail9 30)", "(hget (hash a: 1) (quote (car 5)) 7)", "(hget (hash a: 1) (quote (car 5)))", "(defmac keepm9 [x] (let [a] 1))", "(defn keepf9 [x] (let [a] 1))", "(func keepf9 [x:int64] [r:int64] (let [a] 1))"}

func c05Sweep(c *core.Ctx, k int) *core.Result {
	pos, fault := c05Pos[k/len(c05Faults)], c05Faults[k%len(c05Faults)]
	form := strings.ReplaceAll(pos, "X", fault)
	text := form + "\n(def after9 2)\n" // a text is compiled as a whole before it runs, so before9 is defined by an earlier evaluation
	res := &core.Result{Input: text, Hash: core.HashOf(text), Nontrivial: true}
	s := NewSutRun(true)
	s.Env.AddFunction("boom", func(e *zygo.Zlisp, name string, args []zygo.Sexp) (zygo.Sexp, error) {
		return zygo.SexpNull, fmt.Errorf("boom-injected")
	})
	s.Env.AddFunction("pboom", func(e *zygo.Zlisp, name string, args []zygo.Sexp) (zygo.Sexp, error) {
		panic("pboom-injected")
	})
	// the form alone must succeed when the failing form is replaced by a value: otherwise the
	// template itself is at fault and says nothing about containment
	ctl := NewSutRun(true)
	if oc := ctl.Eval("(def before9 1)\n"+strings.ReplaceAll(pos, "X", "1")+"\n", 200000); oc.Err != nil || oc.Panic != "" {
		res.Verdict, res.Key, res.Detail = core.Inconclusive, "template-fails-with-a-healthy-operand", OutStr(oc)
		return res
	}
	c05SweepSetup := "(def before9 1) (defmac forever9 [x] ^(forever9 ~x)) (defmac badm9 [x] ^(let [q] ~x)) (defmac keepm9 [x] ^(+ 100 ~x)) (defn keepf9 [x] (+ 200 x)) (defn deepfail9 [n] (cond (<= n 0) (aget [1] 9) (+ 1 (deepfail9 (- n 1)))))\n"
	s.Eval(c05SweepSetup, 0)
	o := s.Eval(text, 200000)
	res.Evals++
	res.Ev("position_sweep", 1)
	switch {
	case o.Panic != "":
		res.Violate("sweep:escaped-panic:"+o.Site, o.Panic, text)
		return res
	case o.Budget:
		res.Verdict, res.Key = core.Inconclusive, "budget"
		return res
	case o.Err == nil:
		res.Violate("sweep:error-swallowed", fmt.Sprintf("the failing form %s inside %s did not make the evaluation fail: it returned %s", fault, pos, OutStr(o)), text)
		return res
	}
	if d := sut.DepthsOf(s.Env); !atRest(d) || d.Data != 0 {
		res.Violate("sweep:not-at-rest", fmt.Sprintf("after the failed evaluation: %v", d), text)
		return res
	}
	if b := s.Eval("before9\n", 0); OutStr(b) != "1" && !strings.Contains(pos, "set before9") {
		res.Violate("sweep:earlier-definition-lost", "before9 evaluates to "+OutStr(b)+" after the failed evaluation", text)
	}
	if a := s.Eval("after9\n", 0); a.Err == nil {
		res.Violate("sweep:ran-past-the-failure", "after9 is defined ("+OutStr(a)+"): forms after the failing one were evaluated", text)
	}
	sweepBattery := append(append([]struct{ text, want string }{}, c05Generic...), []struct{ text, want string }{
		{"(defmac zm9 [x] ^(+ 1 ~x)) (zm9 4)\n", "5"},
		{"(list (keepm9 1) (keepf9 1))\n", "(101 201)"},
		{"(def zc9 0) (range k v [1 2] (set zc9 (+ zc9 v))) (++ zc9) zc9\n", "4"},
		{"(defn zl9 [#x] (force #x)) (zl9 (+ 20 22))\n", "42"},
		{"(defn zbrk9 [] (break))\n", "ERR"},
		{"{zs9 := 0; for i := 0; i < 3; i++ { zs9 += i }; zs9}\n", "3"},
	}...)
	for _, q := range sweepBattery {
		b := s.Eval(q.text, 100000)
		res.Evals++
		res.Ev("battery_questions", 1)
		got := OutStr(b)
		if b.Err != nil && q.want == "ERR" {
			got = "ERR"
		}
		if got != q.want {
			res.Violate("sweep:battery", fmt.Sprintf("after the failed evaluation %q gives %s, want %s", q.text, OutStr(b), q.want), text)
			break
		}
		if d := sut.DepthsOf(s.Env); !atRest(d) || d.Data != 0 {
			res.Violate("sweep:not-at-rest", fmt.Sprintf("after battery question %q: %v", q.text, d), text)
			break
		}
	}
	return res
}

func c05Run(c *core.Ctx, i int) *core.Result {
	if base := thorN(c, 1500, 8000) + len(c05Pos)*len(c05Faults); i >= base {
		// host-API sequences (apiseq.go) with failing steps mixed in
		res := &core.Result{Nontrivial: true}
		apiSeqRun(res, core.NewRng(c.Seed, "C05api", i, 0), 24, true, "api:")
		if res.Input == "" {
			res.Input = fmt.Sprintf("host-API sequence %d", i-base)
			res.Hash = core.HashOf(res.Input)
		}
		return res
	}
	if base := thorN(c, 1500, 8000); i >= base {
		return c05Sweep(c, i-base)
	}
	g, prog, n := c05Gen(c, i)
	text := lang.Plain.Program(prog)
	res := &core.Result{Input: text, Hash: core.HashOf(text)}
	if n == 0 || n > 40 {
		res.Verdict, res.Key = core.Inconclusive, "no-suitable-program"
		return res
	}
	names := c05Names(prog)
	ref0 := &lang.R{MaxSteps: 20000}
	rv0, rerr0 := ref0.Run(prog, lang.NewEnv(nil))
	kinds := []int{0, 1}
	for k := 1; k <= n; k++ {
		for _, kind := range kinds {
			if !c.Thor && kind != (k+i)%2 {
				continue // quick: alternate the two kinds over k; thorough: both for every k
			}
			ref := &lang.R{MaxSteps: 20000, InjK: k}
			genv := lang.NewEnv(nil)
			rv, rerr := ref.Run(prog, genv)
			if ref.InjN < k {
				continue // an earlier absorbed failure changed the path: point not reached
			}
			if rerr != nil && rerr.Kind == "budget" {
				continue
			}
			tag := []string{"err", "panic"}[kind]
			s := NewSutRun(false)
			s.InjK, s.InjKind = k, kind
			o := s.Eval(text, int64(400*ref.Steps+100000))
			res.Evals++
			res.Ev([]string{"injected_err", "injected_panic"}[kind], 1)
			in := fmt.Sprintf("k=%d kind=%s\n%s", k, tag, text)
			viol := func(key, detail string) {
				res.Violate(tag+":"+key, fmt.Sprintf("k=%d of %d, %s: %s", k, n, tag, detail), in)
			}
			if rerr != nil && rerr.Kind == "injected" {
				res.Ev("propagated_to_top", 1)
				switch {
				case o.Panic != "":
					viol("escaped-panic:"+o.Site, "panic escaped: "+o.Panic)
				case o.Budget:
					viol("did-not-return", "step budget exceeded")
				case o.Err == nil:
					viol("error-swallowed", "the injected failure vanished: EvalString returned "+OutStr(o)+fmt.Sprintf("\n  sut trace %v\n  ref trace %v", s.Trace, ref.Trace))
				case !strings.Contains(o.Err.Error(), "INJECTED-"+rerr.What):
					viol("other-error", "an error was returned but not the injected one (INJECTED-"+rerr.What+"): "+o.ErrLine())
				case strings.Join(ref.Trace, ",") != strings.Join(s.Trace, ","):
					viol("effects-before-failure", fmt.Sprintf("effects up to the failure differ\n  ref %v\n  sut %v", ref.Trace, s.Trace))
				}
			} else {
				// absorbed by try (or the reference ends in another error): full comparison
				res.Ev("absorbed_by_try", int64(ref.Absorbed))
				if key, detail := CompareRun(rv, rerr, ref.Trace, o, s.Trace); key != "" {
					viol("absorbed:"+key, detail)
				}
			}
			if d := sut.DepthsOf(s.Env); !atRest(d) || d.Data != 0 {
				viol("not-at-rest", fmt.Sprintf("after the failed evaluation the VM is not at rest: %v", d))
			}
			if res.Verdict != core.Violated {
				c05Battery(res, tag, in, s, ref, genv, g, names, true)
			}
			if ref.Absorbed > 0 || len(ref.Trace) > 0 {
				res.Nontrivial = true
			}
		}
	}
	// compile error placed at every static fault point
	var injNodes []*lang.N
	lang.Walk(prog, func(x *lang.N) {
		if x.K == "inj" {
			injNodes = append(injNodes, x)
		}
	})
	for j, node := range injNodes {
		if j >= 12 {
			break
		}
		saveK, saveS := node.K, node.S
		node.K, node.S = "bad", []string{"(let)", "(cond)", "(fn)", "(for [1 2] 3)"}[(i+j)%4]
		t := lang.Plain.Program(prog)
		node.K, node.S = saveK, saveS
		s := NewSutRun(false)
		o := s.Eval(t, 0)
		res.Evals++
		res.Ev("compile_faults", 1)
		in := fmt.Sprintf("compile fault at static point %d\n%s", j, t)
		viol := func(key, detail string) { res.Violate("compile:"+key, detail, in) }
		// the fault-free run tells whether the point is reachable at all
		switch {
		case o.Panic != "":
			viol("escaped-panic:"+o.Site, "panic escaped: "+o.Panic)
		case o.Budget:
		case o.Err == nil:
			// legitimate only if the bad form sits in code that is compiled lazily and never reached
			if s.Absorbed == 0 && refReaches(prog, node) {
				viol("error-swallowed", "a form that cannot compile was evaluated without an error: result "+OutStr(o))
			}
		default:
			if s.Absorbed == 0 && !isPrefix(s.Trace, ref0.Trace) && rerr0 == nil {
				viol("effects-not-a-prefix", fmt.Sprintf("effects observed before the compile failure are not a prefix of the fault-free effects\n  sut %v\n  fault-free %v", s.Trace, ref0.Trace))
			}
		}
		if d := sut.DepthsOf(s.Env); !atRest(d) || d.Data != 0 {
			viol("not-at-rest", fmt.Sprintf("VM not at rest after a compile error: %v", d))
		}
		if res.Verdict != core.Violated {
			c05Battery(res, "compile", in, s, nil, nil, g, nil, false)
		}
	}
	// parse error: nothing of the text may run, and the interpreter must then
	// evaluate the healthy program exactly like a fresh one
	{
		broken := []string{text + "(+ 1 \n", "(def a 1) ) " + text, text + "(def a \"unterminated)\n", "[1 2 " + text}[i%4]
		s := NewSutRun(false)
		o := s.Eval(broken, 0)
		res.Evals++
		res.Ev("parse_faults", 1)
		in := "parse fault\n" + broken
		if o.Panic != "" {
			res.Violate("parse:escaped-panic:"+o.Site, o.Panic, in)
		} else if o.Err == nil && !o.Budget {
			res.Violate("parse:error-swallowed", "ill-formed text evaluated without error: "+OutStr(o), in)
		} else if d := sut.DepthsOf(s.Env); !atRest(d) || d.Data != 0 {
			res.Violate("parse:not-at-rest", fmt.Sprintf("VM not at rest after parse error: %v", d), in)
		} else if len(s.Trace) == 0 || i%4 == 0 || i%4 == 2 {
			// no effect happened (text rejected before running) => behaves as fresh
			if len(s.Trace) == 0 && rerr0 == nil && !strings.HasPrefix(broken, "(def a 1)") {
				s.InjN = 0
				o2 := s.Eval(text, int64(400*ref0.Steps+100000))
				if key, detail := CompareRun(rv0, rerr0, ref0.Trace, o2, s.Trace); key != "" {
					res.Violate("parse:later-evaluation:"+key, "after a parse error the healthy program no longer evaluates like in a fresh interpreter: "+detail, in)
				}
			}
		}
	}
	// instruction-level crash points (thorough; short programs)
	if c.Thor && rerr0 == nil {
		s0 := NewSutRun(false)
		o0 := s0.Eval(text, 0)
		if o0.Err == nil && o0.Panic == "" && o0.Steps <= 400 {
			for k := int64(1); k <= o0.Steps; k++ {
				s := NewSutRun(false)
				o := sut.EvalFailAt(s.Env, text, 0, k)
				res.Evals++
				res.Ev("instruction_faults", 1)
				in := fmt.Sprintf("instruction fault k=%d\n%s", k, text)
				switch {
				case o.Panic != "":
					res.Violate("instr:escaped-panic:"+o.Site, o.Panic, in)
				case o.Err == nil:
					if s.Absorbed == 0 {
						res.Violate("instr:error-swallowed", "injected instruction fault vanished: "+OutStr(o), in)
					}
				case !isPrefix(s.Trace, s0.Trace) && s.Absorbed == 0:
					res.Violate("instr:effects-not-a-prefix", fmt.Sprintf("sut %v fault-free %v", s.Trace, s0.Trace), in)
				}
				if d := sut.DepthsOf(s.Env); !atRest(d) || d.Data != 0 {
					res.Violate("instr:not-at-rest", fmt.Sprintf("VM not at rest after instruction fault: %v", d), in)
				}
				if res.Verdict != core.Violated {
					c05Battery(res, "instr", in, s, nil, nil, g, nil, false)
				}
			}
		}
	}
	return res
}

// refReaches reports whether the reference evaluator, on the fault-free
// program, evaluates node (i.e. the static point is dynamically reached).
func refReaches(prog []*lang.N, node *lang.N) bool {
	save := node.K
	saveI := node.I
	node.K = "tr"
	node.I = -4242
	node.A = []*lang.N{lang.Int(0)}
	r := &lang.R{MaxSteps: 20000}
	r.Run(prog, lang.NewEnv(nil))
	node.K, node.I, node.A = save, saveI, nil
	for _, t := range r.Trace {
		if strings.HasPrefix(t, "-4242:") {
			return true
		}
	}
	return false
}
