package props

import (
	"bytes"
	"fmt"
	"os"
	"os/exec"
	"path/filepath"
	"sort"
	"strings"
	"sync"
	"time"

	"github.com/glycerine/zygomys/v9/zygo"
	"zyverif/core"
	"zyverif/lang"
	"zyverif/sut"
)

// C01 — no input can crash the host (DESIGN §4.C01).

var c01Alphabet = []string{"(", ")", "[", "]", "{", "}", "'", "\"", "`", "^", "~", "~@", "%", ":", ":=", "=", ".", ",", ";", "#", "?", "&", "$", "\\", "->", "<-", "-", "+", "*", "/", "**", "<", "!", "1", "-1", "2.5", "1e3", "0x1F", "12ULL", "a", "a:", "a.b", "#a", "'c'", "\"s\"", "and", "or", "cond", "let", "def", "fn", "defn", "for", "break", "continue", "quote", "set", "begin", "defmac", "macexpand", "syntaxQuote", "include", "package", "return", "newScope", "letseq", "mdef", "assert", "hash", "list", "nil", "if", "else", "not", "range", "struct", "func", "method", "interface", "var", "infix", "comma", "//", "/*", "*/", "\n", "++", "+=", "==", "Inf", "NaN", "unquote", "unquote-splicing", "&&", "_ls", "raw64", "field", "label:", "true"}

// opener, innermost, closer of the deep-nesting workload ((str (str … doubles its output per level: honest exponential work, not included)
var c01Deep = [][3]string{
	{"(", "1", ")"}, {"[", "1", "]"}, {"{", "1", "}"}, {"%", "a", ""}, {"^(", "a", ")"}, {"~", "a", ""}, {"(quote ", "a", ")"},
	{"(begin ", "1", ")"}, {"(+ 1 ", "1", ")"}, {"(list ", "1", ")"}, {"[1 ", "2", "]"}, {"(hash a: ", "1", ")"}, {"{a: ", "1", "}"},
	{"((fn [] ", "1", "))"}, {"(let [a ", "1", "] a)"}, {"(cond true ", "1", " 0)"}, {"(and 1 ", "1", ")"}, {"{ 1 + ", "1", "}"},
	{"{ a = ", "1", "}"}, {"(newScope ", "1", ")"}, {"- ", "1", ""}, {"not ", "true", ""}, {"/* ", "x", " */"}, {"(defn f [] ", "1", ")"},
	{"(macexpand ", "1", ")"}, {"(type? ", "1", ")"}, {"a.", "b", ""}, {"a[", "1", "]"}, {"(for [1 1 1] ", "(break)", ")"}, {"\"", "x", "\""},
}

// calls of typed functions / methods (declared in the case's preamble) with every mix of labels
var c01TypedCalls = []string{
	"(sub2 5 1)", "(sub2 a: 5 b: 1)", "(sub2 b: 1 a: 5)", "(sub2 a: 5)", "(sub2 b: 1)", "(sub2 a: 5 1)", "(sub2 5 b: 1)", "(sub2 a:)", "(sub2 a: b:)", "(sub2 c: 1)", "(sub2 a: 5 c: 1)",
	"(sub2 a: 5 a: 6)", "(sub2 a: 5 b: 1 b: 2)", "(sub2 1 2 3)", "(sub2)", "(sub2 a: \"s\" b: 1)", "(sub2 a: nil b: 1)", "(sub2 a: (sub2 a: 1) b: 1)", "(sub2 b: a: 1 2)", "(sub2 a: 5 b: [1])",
	"(one1 s: \"x\")", "(one1 s: 5)", "(one1 s:)", "(one1 t: \"x\")", "(one1 \"x\" s: \"y\")", "(mv9 pt 1 2)", "(mv9 pt dx: 1 dy: 2)", "(mv9 pt dx: 1)", "(mv9 pt dy: 2)", "(mv9 p: pt dx: 1 dy: 2)",
	"(mv9 dx: 1 dy: 2)", "(mv9 5 1 2)", "(mv9 pt dx: 1 dy: 2 dz: 3)", "(pt.mv9 1 2)", "(Pt9 x: 1)", "(Pt9 x:)", "(Pt9 x: 1 x: 2)", "(Pt9 z: 1)", "(Pt9 1 2)", "(Pt9 x: \"s\")",
	"(lz9 x: (boom9) y: 10)", "(lz9 (boom9) 10)", "(lz9 y: 10)", "(lz9 who9 1)", "(vr9 1)", "(vr9 a: 1)", "(vr9 1 2 3)", "(vr9 a: 1 r: 2)", "(apply sub2 [a: 5])", "(map sub2 [a: b:])",
}

var c01Infix = []string{"1", "a", "a:", "top:", ";", ",", "=", ":=", "+", "-", "*", "**", "<", "==", "and", "not", "if", "else", "for", "range", "break", "continue", "{", "}", "[", "]", "(", ")", ".", "a.b", "a[1]", "\"s\"", "++", "+=", "(f a)", "\n"}

// names that legitimately end, block or leave the process when called
var c01Deny = map[string]bool{"exit": true, "stop": true, "sys": true, "system": true, "sleep": true, "makeChan": true, "send": true, "<!": true, "recv": true, "!>": true, "readline": true, "input": true,
	"writef": true, "owritef": true, "save": true, "bsave": true, "greenpack": true, "chdir": true, "go": true, "_closdump": true, "timeit": true, "setenv": true, "cd": true,
	// debug dumps of interpreter internals through a third-party reflection printer: honest minutes of work
	"dump": true, "goon": true}

var (
	c01once    sync.Once
	c01names   []string
	c01corpus  []string
	c01special = []string{"and", "or", "cond", "quote", "def", "mdef", "fn", "defn", "begin", "let", "letseq", "assert", "defmac", "macexpand", "syntaxQuote", "include", "for", "set", "break", "continue", "newScope", "package", "return", "_ls"}
)

var c01ArgKinds = []string{"1", "-9223372036854775808", "2.5", "\"s\"", "a", "a.b", "(list 1 2)", "[1 2]", "(hash k: 1)", "nil", "(fn [x] x)", "#z", "()", "[]", "{}", "'c'", "a:", "(quote q)", "12ULL", "NaN", "[a]", "(let)", "~x", "%y", "^(z)", "`raw`", "-1", "(and)", "true", "(1 \\ 2)", "([] \\ 2)", "(a \\ b)", "%(1 \\ 2)"}

func c01Setup(c *core.Ctx) {
	c01once.Do(func() {
		env := zygo.NewZlisp()
		env.StandardSetup()
		g, m, b := env.VerifGlobalNames()
		set := map[string]bool{}
		for _, l := range [][]string{g, m, b} {
			for _, n := range l {
				if n != "" && !c01Deny[n] {
					set[n] = true
				}
			}
		}
		for n := range set {
			c01names = append(c01names, n)
		}
		sort.Strings(c01names)
		files, _ := filepath.Glob(filepath.Join(c.Repo, "tests", "*.zy"))
		sort.Strings(files)
		for _, f := range files {
			if b, err := os.ReadFile(f); err == nil && len(b) < 8000 {
				t := string(b)
				bad := false
				for _, w := range []string{"(sys", "exit", "sleep", "makeChan", "writef", "save", "chan", "(stop", "timeit"} {
					if strings.Contains(t, w) {
						bad = true
					}
				}
				if !bad {
					c01corpus = append(c01corpus, t)
				}
			}
		}
	})
}

type c01plan struct{ tok1, tok2, tok3, infix, deep, shapes, names, mut, chaos, cyc, sel, typed, api, seq, repl int }

func c01Plan(c *core.Ctx) c01plan {
	c01Setup(c)
	k := len(c01Alphabet)
	p := c01plan{tok1: 1, tok2: k, infix: len(c01Infix), deep: len(c01Deep), shapes: len(c01special), names: len(c01names), mut: thorN(c, 600, 12000), chaos: thorN(c, 800, 15000), cyc: 12, sel: 7 * 7, typed: len(c01TypedCalls), api: thorN(c, 40, 400), seq: thorN(c, 20, 200), repl: thorN(c, 12, 120)}
	if c.Thor {
		p.tok3 = k * k
	}
	return p
}

func init() {
	core.Register(&core.Prop{
		ID:    "C01",
		Level: "exploration",
		Rule: "inputs: (1) every string of 1 and 2 (quick) / 1..3 (thorough) tokens over a 103-token alphabet, and every infix block { … } with a body of 2 (a fifth of them 3; thorough all 3) tokens over a 36-token infix alphabet with 0-2 line/block comments after the brace, and 30 constructs nested 200 / 2000 (thorough 6000) levels deep, balanced, left open and over-closed (every bracket, quote, sigil and operator character, one literal of each numeric notation, string/char/raw-string openers, comment openers, every special-form name), with and without blanks between tokens; (2) every special form of the compiler and every name bound after StandardSetup (except the ones that end, block or leave the process by design) with 0..4 arguments over 33 argument kinds (including dotted pairs and improper argument lists); (3) byte- and token-level mutations (delete, duplicate, swap, truncate, splice) of the tests/*.zy corpus; (4) generated programs in chaos mode (ill-typed calls, wrong arities, out-of-range indices, tokens replaced by brackets/sigils); (5) self-referential arrays/hashes printed, compared, encoded and converted; index / slice / selector expressions over arrays, strings, lists and hashes with every combination of 7 bounds (in range, equal, inverted, negative, past the end, huge) as values, assignment sources and assignment targets; (6) sequences of hostile inputs against one long-lived interpreter; calls of user-declared typed functions, methods and structs with every mix of positional and named arguments; the Go entry points (Apply, Run, LoadString, EvalExpressions, Duplicate/Clone, the parser, AddGlobal, host functions re-entering Apply) called with wrong counts, odd values and in the wrong order, each followed by ordinary evaluations; (7) lines fed to the real REPL (cmd/zygo -no-liner) and texts given to cmd/zygo -c. " +
			"Entry points: EvalString, LoadString+Run, Parser.ParseTokens whole and in two pieces, EvalExpressions on the parsed forms, macro definition+expansion. Monitor: a recover() boundary around every call (anything reaching it escaped the library), child-process death attributed through the journal (fatal errors, exit), (nil,nil) results, results whose printing fails, and the VM step budget; a watchdog hit outside the VM loop that reproduces alone is a hang. non-trivial = every distinct input",
		Assumptions: []string{
			"names that end, block or leave the process by design (exit, stop, sys, system, sleep, channel operations, file writers, timeit, go) are not called; resource exhaustion by honestly expensive programs is classified inconclusive by the step budget",
		},
		NCases: func(c *core.Ctx) int {
			p := c01Plan(c)
			return p.tok1 + p.tok2 + p.tok3 + p.infix + p.deep + p.shapes + p.names + p.mut + p.chaos + p.cyc + p.sel + p.typed + p.api + p.seq + p.repl
		},
		Chunk:           8,
		CaseTimeoutS:    40,
		StallS:          8,
		HangIsViolation: true,
		Sanitize:        true,
		NeedsZygoBin:    true,
		MustSee:         []string{"eval_calls", "parse_calls", "evalexpr_calls", "loadrun_calls", "repl_lines", "cli_runs", "token_strings", "form_shapes", "mutations", "deep_nests", "selector_expressions", "typed_call_shapes", "api_misuse_steps"},
		Run:             c01Run,
		Describe: func(c *core.Ctx, i int) string {
			return "case " + fmt.Sprint(i) + ": " + c01Describe(c, i)
		},
	})
}

var c01LastInput string

func c01Describe(c *core.Ctx, i int) string {
	kind, _ := c01Kind(c, i)
	return kind + " (the child process died; re-run with --replay to see the last input in the worker output)"
}

func c01Kind(c *core.Ctx, i int) (string, int) {
	p := c01Plan(c)
	for _, k := range []struct {
		name string
		n    int
	}{{"tok1", p.tok1}, {"tok2", p.tok2}, {"tok3", p.tok3}, {"infix", p.infix}, {"deep", p.deep}, {"shapes", p.shapes}, {"names", p.names}, {"mut", p.mut}, {"chaos", p.chaos}, {"cyc", p.cyc}, {"sel", p.sel}, {"typed", p.typed}, {"api", p.api}, {"seq", p.seq}, {"repl", p.repl}} {
		if i < k.n {
			return k.name, i
		}
		i -= k.n
	}
	return "none", 0
}

// one hostile input through every in-process entry point
type c01runner struct {
	res *core.Result
	env *zygo.Zlisp
	n   int
}

func (r *c01runner) fresh() {
	r.env = zygo.NewZlisp()
	r.env.StandardSetup()
	r.n = 0
}

func (r *c01runner) judge(entry, src string, o *sut.Outcome) {
	switch {
	case o.Panic != "":
		r.res.Violate("escaped-panic:"+o.Site, fmt.Sprintf("%s(%q): a Go panic escaped the library: %s", entry, core.Trunc(src, 300), core.Trunc(o.Panic, 300)), src)
		r.fresh()
	case o.Budget:
		r.res.Ev("budget_hits", 1)
		r.fresh()
	case o.Err == nil && o.Val == nil && entry != "ParseTokens" && entry != "LoadString+Run":
		r.res.Violate("nil-value-nil-error:"+entry, fmt.Sprintf("%s(%q) returned a nil Sexp and a nil error", entry, core.Trunc(src, 300)), src)
	case o.Err == nil && o.Val != nil:
		// hosts print results
		pan, site := sut.Protect(func() { _ = o.Val.SexpString(nil) })
		if pan != "" {
			r.res.Violate("escaped-panic-while-printing:"+site, fmt.Sprintf("printing the value of %q panicked: %s", core.Trunc(src, 300), core.Trunc(pan, 300)), src)
		}
	}
}

func (r *c01runner) input(src string) {
	if r.env == nil || r.n > 300 {
		r.fresh()
	}
	r.n++
	core.Beat()
	fmt.Fprintf(os.Stderr, "C01-INPUT %q\n", core.Trunc(src, 2000)) // last line in the worker output names the killer
	// EvalString
	o := sut.Eval(r.env, src, 300000)
	r.res.Evals++
	r.res.Ev("eval_calls", 1)
	r.judge("EvalString", src, o)
	// Parser.ParseTokens whole and in two pieces; EvalExpressions on the parsed forms
	var forms []zygo.Sexp
	po := sut.Call(0, func() (zygo.Sexp, error) {
		p := r.env.NewParser()
		p.ResetAddNewInput(bytes.NewBufferString(src))
		xs, err := p.ParseTokens()
		p.Stop()
		forms = xs
		return zygo.SexpNull, err
	})
	r.res.Ev("parse_calls", 1)
	r.judge("ParseTokens", src, po)
	if len(src) > 1 {
		cut := 1 + r.n%(len(src)-1)
		po2 := sut.Call(0, func() (zygo.Sexp, error) {
			p := r.env.NewParser()
			p.ResetAddNewInput(bytes.NewBufferString(src[:cut]))
			p.ParseTokens()
			p.NewInput(bytes.NewBufferString(src[cut:]))
			_, err := p.ParseTokens()
			p.Stop()
			return zygo.SexpNull, err
		})
		r.res.Ev("parse_calls", 1)
		r.judge("ParseTokens(pieces)", src, po2)
	}
	if po.Err == nil && po.Panic == "" && len(forms) > 0 && len(forms) < 50 {
		eo := sut.Call(300000, func() (zygo.Sexp, error) { return r.env.EvalExpressions(forms) })
		r.res.Ev("evalexpr_calls", 1)
		r.judge("EvalExpressions", src, eo)
	}
	// LoadString + Run
	lo := sut.Call(300000, func() (zygo.Sexp, error) {
		if err := r.env.LoadString(src); err != nil {
			return zygo.SexpNull, err
		}
		return r.env.Run()
	})
	r.res.Ev("loadrun_calls", 1)
	r.judge("LoadString+Run", src, lo)
}

func c01Run(c *core.Ctx, i int) *core.Result {
	kind, k := c01Kind(c, i)
	res := &core.Result{Nontrivial: true}
	r := &c01runner{res: res}
	rng := core.NewRng(c.Seed, "C01", i, 0)
	A := c01Alphabet
	both := func(toks []string) {
		r.input(strings.Join(toks, " ") + "\n")
		r.input(strings.Join(toks, "") + "\n")
		r.input(strings.Join(toks, " ")) // no trailing newline
		res.Ev("token_strings", 1)
	}
	switch kind {
	case "tok1":
		for _, a := range A {
			both([]string{a})
		}
		res.Input = "all single tokens"
	case "tok2":
		for _, b := range A {
			both([]string{A[k], b})
		}
		res.Input = fmt.Sprintf("all token pairs starting with %q", A[k])
	case "tok3":
		a, b := A[k/len(A)], A[k%len(A)]
		for _, cc := range A {
			both([]string{a, b, cc})
		}
		res.Input = fmt.Sprintf("all token triples starting with %q %q", a, b)
	case "infix":
		// infix blocks: every body of 2 (and, thorough, 3) tokens over the infix alphabet,
		// with 0-2 line/block comments between the brace and the body
		I := c01Infix
		cms := []string{"", "// c\n", "// c\n// d\n", "/* c */", "/* c */ /* d */ ", "// c\n/* d */ // e\n"}
		a := I[k]
		for bi, b := range I {
			cm := cms[(k+bi)%len(cms)]
			r.input("{" + cm + " " + a + " " + b + " }\n")
			r.input("{" + a + " " + b + cm + "}\n")
			res.Ev("token_strings", 1)
			if c.Thor || (k+bi)%5 == 0 {
				for _, cc := range I {
					r.input("{ " + a + " " + b + " " + cc + " }\n")
					res.Ev("token_strings", 1)
				}
			}
		}
		res.Input = fmt.Sprintf("infix blocks starting with %q", a)
	case "deep":
		// one construct nested 200 / 2000 (thorough: 6000) levels deep: balanced, left open, over-closed
		d := c01Deep[k]
		depths := []int{200, 2000}
		if c.Thor {
			depths = append(depths, 6000) // compiling a nest is quadratic in its depth for several forms (cond, let …): 20000 takes minutes of honest work
		}
		if strings.Contains(d[0], "a: ") {
			// printing a nest of hashes is honestly quadratic in its depth (20 s at 2000)
			depths = []int{200, 600}
			if c.Thor {
				depths = append(depths, 2000)
			}
		}
		for _, n := range depths {
			r.input(strings.Repeat(d[0], n) + d[1] + strings.Repeat(d[2], n) + "\n")
			r.input(strings.Repeat(d[0], n) + d[1] + "\n")
			r.input(strings.Repeat(d[0], n/2) + d[1] + strings.Repeat(d[2], n) + "\n")
			res.Ev("deep_nests", 3)
		}
		res.Input = fmt.Sprintf("%q nested up to %d deep", d[0], depths[len(depths)-1])
	case "shapes", "names":
		name := ""
		if kind == "shapes" {
			name = c01special[k]
		} else {
			name = c01names[k]
		}
		res.Input = "call shapes of " + name
		r.input("(" + name + ")\n")
		r.input(name + "\n")
		r.input("(def zz " + name + ")\n")
		r.input("{" + name + "}\n")
		for _, a1 := range c01ArgKinds {
			r.input("(" + name + " " + a1 + ")\n")
			res.Ev("form_shapes", 1)
		}
		for n := 2; n <= 4; n++ {
			for rep := 0; rep < 14; rep++ {
				var as []string
				for j := 0; j < n; j++ {
					as = append(as, c01ArgKinds[rng.N(len(c01ArgKinds))])
				}
				r.input("(" + name + " " + strings.Join(as, " ") + ")\n")
				res.Ev("form_shapes", 1)
			}
		}
		// the form in operand position, with user-function calls around it: a form that
		// leaves no value (or two) unbalances the operand stack the next call pops
		fs := []string{"(" + name + ")", "(" + name + " " + c01ArgKinds[rng.N(len(c01ArgKinds))] + ")", "(" + name + " " + c01ArgKinds[rng.N(len(c01ArgKinds))] + " " + c01ArgKinds[rng.N(len(c01ArgKinds))] + ")"}
		for _, f := range fs {
			pre := "(defn idw2 [id x] x)\n"
			r.input(pre + "(- (* 3 4) (or " + f + " (* (idw2 5 -2) (idw2 6 1))))\n")
			r.input(pre + "(idw2 1 [1 " + f + " 2])\n(idw2 (idw2 1 " + f + ") (+ 1 " + f + "))\n")
			r.input(pre + "(let [a " + f + "] (idw2 1 a))\n(cond " + f + " (idw2 1 1) (idw2 2 2))\n")
			r.input(pre + "(for [(def i 0) (< i 2) (def i (+ i 1))] " + f + " (idw2 i " + f + "))\n(idw2 3 (begin " + f + "))\n")
			res.Ev("form_shapes", 4)
		}
		r.input("(" + name + " 1 \\ 2)\n(" + name + " \\ 2)\n(" + name + " [1] \\ a)\n")
		r.input("(" + name + " (" + name + "))\n")
		r.input("(apply " + name + " [1 2])\n(map " + name + " [1 \"a\" nil])\n")
		r.input("(defmac zm [x] ^(" + name + " ~x ~@x))\n(zm (1 2))\n(macexpand (zm (1 2)))\n")
	case "mut":
		if len(c01corpus) == 0 {
			break
		}
		t := c01corpus[rng.N(len(c01corpus))]
		for rep := 0; rep < 6; rep++ {
			m := c01Mutate(rng, t)
			r.input(m)
			res.Ev("mutations", 1)
		}
		res.Input = "mutations of a corpus script"
	case "chaos":
		g := &lang.G{R: core.NewRng(c.Seed, "C01g", i, 0), C: lang.Cfg{Depth: 4, Pool: []string{"a", "b", "c"}, Data: true, HigherOrder: true, Variadic: true, Recursion: true, Lazy: true, TrOneIn: 6}}
		t := lang.Plain.Program(g.Program())
		t = strings.ReplaceAll(t, "(tr ", "(idw2 ")
		r.input("(defn idw2 [id x] x)\n" + t)
		for rep := 0; rep < 5; rep++ {
			r.input("(defn idw2 [id x] x)\n" + c01Mutate(rng, t))
			res.Ev("mutations", 1)
		}
		res.Input = "chaos mutations of a generated program"
	case "sel":
		// index / slice / selector expressions with every combination of bounds (in range, equal,
		// inverted, negative, past the end) as values, as assignment sources and as assignment targets
		bounds := []string{"-1", "0", "1", "2", "3", "4", "9223372036854775807"}
		bi, bj := bounds[k/7], bounds[k%7]
		pre := "(def a [3 4 5]) (def s \"abc\") (def l (list 1 2 3)) (def h (hash k: [7 8] m: (hash z: 1)))\n"
		for _, e := range []string{
			"a[" + bi + "]", "a[" + bi + ":" + bj + "]", "a[" + bi + ":]", "a[:" + bj + "]", "s[" + bi + ":" + bj + "]", "s[" + bi + "]", "l[" + bi + "]", "h.k[" + bi + "]", "h.k[" + bi + ":" + bj + "]",
			"a[" + bi + "][" + bj + "]", "h.m.z[" + bi + "]", "h[" + bi + "]", "a[a[" + bi + "]]", "a[" + bi + ":" + bj + "][0]",
		} {
			r.input(pre + "{" + e + "}\n")
			r.input(pre + "{b := " + e + "}\n{c = " + e + "}\n(def d {" + e + "})\n")
			r.input(pre + "{" + e + " = 5}\n{" + e + " := [1]}\n{" + e + " += 1}\n")
			r.input(pre + "(str {" + e + "})\n(len {" + e + "})\n(first {" + e + "})\n")
			res.Ev("selector_expressions", 4)
		}
		for _, e := range []string{"(arrayidx a [" + bi + ":" + bj + "])", "(arrayidx a [" + bi + "])", "(aget a " + bi + ")", "(slice a " + bi + " " + bj + ")", "(slice s " + bi + " " + bj + ")", "(aset a " + bi + " " + bj + ")", "(sget s " + bi + ")", "(hashidx h [" + bi + "])", "(arrayidx h.k [" + bi + ":" + bj + "])"} {
			r.input(pre + e + "\n(def b " + e + ")\n(set (quote zz) " + e + ")\n(set " + e + " 1)\n")
			res.Ev("selector_expressions", 1)
		}
		res.Input = "selector expressions with bounds " + bi + ", " + bj
	case "typed":
		// user-declared typed functions, methods and structs called with every mix of positional and
		// named arguments (complete, partial, repeated, unknown, trailing label, wrong type)
		call := c01TypedCalls[k]
		r.fresh()
		for _, decl := range []string{"(func sub2 [a:int64 b:int64] [r:int64] (- a b))", "(func one1 [s:string] [n:int64] (len s))", "(struct Pt9 [(field x: int64) (field y: int64)])",
			"(method [p:Pt9] mv9 [dx:int64 dy:int64] [r:int64] (+ p.x dx dy))", "(def pt (Pt9 x: 1 y: 2))", "(func lz9 [#x:int64 y:int64] [r:int64] (+ y 1))", "(defn vr9 [a & r] (len r))", "(def who9 3)"} {
			sut.Eval(r.env, decl+"\n", 100000) // each on its own: one rejected declaration must not hide the others
		}
		r.input(call + "\n")
		r.input("(+ 1 " + call + ")\n(list " + call + " " + call + ")\n")
		r.input("(defn w9 [] " + call + ") (w9) (w9)\n")
		res.Ev("typed_call_shapes", 3)
		res.Input = "typed call " + call
	case "api":
		c01Api(res, rng)
	case "cyc":
		cyc := []string{
			"(def c [1]) (aset c 0 c) (str c)\n", "(def c [1]) (aset c 0 c) c\n", "(def c [1 2]) (aset c 1 c) (== c c)\n", "(def c [1]) (aset c 0 c) (def d [1]) (aset d 0 d) (== c d)\n",
			"(def h (hash)) (hset h a: h) (str h)\n", "(def h (hash)) (hset h a: h) (json h)\n", "(def h (hash)) (hset h a: h) (msgpack h)\n", "(def h (hash)) (hset h a: h) h\n",
			"(def c [1]) (aset c 0 c) (json c)\n", "(def c [1]) (aset c 0 c) (len c) (first c) (flatten c)\n", "(def q [10 20 30]) {q[1] := q[1:2]} q (str q)\n", "(def h (hash)) (hset h a: [h]) (keys h) (hpair h 0) (togo h)\n",
		}
		r.input(cyc[k%len(cyc)])
		res.Input = cyc[k%len(cyc)]
	case "seq":
		// state left by one malformed input must not make a later one crash
		r.fresh()
		var last []string
		for step := 0; step < 150; step++ {
			var t string
			switch rng.N(4) {
			case 0:
				n := 1 + rng.N(4)
				var toks []string
				for j := 0; j < n; j++ {
					toks = append(toks, A[rng.N(len(A))])
				}
				t = strings.Join(toks, []string{" ", ""}[rng.N(2)]) + "\n"
			case 1:
				t = "(" + c01names[rng.N(len(c01names))] + " " + c01ArgKinds[rng.N(len(c01ArgKinds))] + ")\n"
			case 2:
				if len(c01corpus) > 0 {
					t = c01Mutate(rng, c01corpus[rng.N(len(c01corpus))])
				}
			default:
				t = []string{"(+ 1 2)\n", "(def sq 1)\n", "(defn sf [x] (* x 2)) (sf 4)\n", "{1 + 2}\n"}[rng.N(4)]
			}
			keep := r.env
			r.n = 0
			r.input(t)
			if r.env != keep { // a violation or budget hit replaced the interpreter: stop this history
				last = append(last, t)
				break
			}
			last = append(last, t)
			if len(last) > 5 {
				last = last[1:]
			}
		}
		res.Input = "history on one interpreter, last inputs: " + core.Trunc(strings.Join(last, " | "), 1500)
	case "repl":
		c01Repl(c, res, rng, i)
	}
	if res.Verdict != core.Violated && res.Input == "" {
		res.Input = kind
	}
	res.Hash = core.HashOf(fmt.Sprintf("%s-%d-%s", kind, k, res.Input))
	return res
}

// c01Api: the Go entry points an embedding host uses, called in hostile ways (wrong argument counts,
// nil and odd values, calls in the wrong order), each followed by ordinary evaluations on the same
// interpreter: nothing may panic out of the library, and the ordinary evaluations must still return.
func c01Api(res *core.Result, rng *core.Rng) {
	env := zygo.NewZlisp()
	env.StandardSetup()
	env.EvalString("(defn addk [a b] (+ a b 1)) (defn vark [a & r] (len r)) (defn lazyk [#x y] y) (defmac incm [x] ^(+ 1 ~x))\n")
	var hist []string
	get := func(name string) *zygo.SexpFunction {
		if o, ok := env.FindObject(name); ok {
			if f, ok := o.(*zygo.SexpFunction); ok {
				return f
			}
		}
		return nil
	}
	for st := 0; st < 14; st++ {
		var desc string
		var f func() (zygo.Sexp, error)
		switch rng.N(16) {
		case 0:
			n := rng.N(5)
			desc = fmt.Sprintf("Apply(addk, %d args)", n)
			f = func() (zygo.Sexp, error) {
				args := []zygo.Sexp{}
				for j := 0; j < n; j++ {
					args = append(args, &zygo.SexpInt{Val: int64(j)})
				}
				return env.Apply(get("addk"), args)
			}
		case 1:
			desc = "Apply(vark, no args)"
			f = func() (zygo.Sexp, error) { return env.Apply(get("vark"), nil) }
		case 2:
			desc = "Apply(lazyk, 1 arg)"
			f = func() (zygo.Sexp, error) { return env.Apply(get("lazyk"), []zygo.Sexp{zygo.SexpNull}) }
		case 3:
			desc = "Apply(addk, [nil-Sexp \"s\"])"
			f = func() (zygo.Sexp, error) {
				return env.Apply(get("addk"), []zygo.Sexp{zygo.SexpNull, &zygo.SexpStr{S: "s"}})
			}
		case 4:
			desc = "Apply(builtin +, [1 \"s\"])"
			f = func() (zygo.Sexp, error) {
				return env.Apply(get("+"), []zygo.Sexp{&zygo.SexpInt{Val: 1}, &zygo.SexpStr{S: "s"}})
			}
		case 5:
			desc = "Run() with nothing loaded"
			f = func() (zygo.Sexp, error) { return env.Run() }
		case 6:
			desc = "LoadString(valid) x2 without Run, then LoadString(malformed), then Run twice"
			f = func() (zygo.Sexp, error) {
				env.LoadString("(def la9 1)\n")
				env.LoadString("(+ la9 1)\n")
				env.LoadString("(for [1 2] 3)\n")
				env.Run()
				return env.Run()
			}
		case 7:
			desc = "EvalExpressions(nil) and of odd values"
			f = func() (zygo.Sexp, error) {
				env.EvalExpressions(nil)
				env.EvalExpressions([]zygo.Sexp{})
				return env.EvalExpressions([]zygo.Sexp{zygo.SexpNull, &zygo.SexpInt{Val: 3}, env.MakeSymbol("undefinedsym9"), zygo.SexpMarker})
			}
		case 8:
			desc = "EvalExpressions of a call list built by hand with an improper tail"
			f = func() (zygo.Sexp, error) {
				return env.EvalExpressions([]zygo.Sexp{zygo.Cons(env.MakeSymbol("addk"), zygo.Cons(&zygo.SexpInt{Val: 1}, &zygo.SexpInt{Val: 2}))})
			}
		case 9:
			desc = "Duplicate(): failing evaluation in the copy, then Clone(): failing evaluation"
			f = func() (zygo.Sexp, error) {
				env.Duplicate().EvalString("(addk 1)\n")
				env.Clone().EvalString("(let)\n")
				return env.Duplicate().EvalString("(incm 1)\n")
			}
		case 10:
			desc = "parser: ParseTokens after Stop, NewInput after an error"
			f = func() (zygo.Sexp, error) {
				p := env.NewParser()
				p.ResetAddNewInput(bytes.NewBufferString("(a b"))
				p.ParseTokens()
				p.Stop()
				p.ParseTokens()
				p.NewInput(bytes.NewBufferString(") \"x"))
				_, err := p.ParseTokens()
				p.Stop()
				p.Stop()
				return zygo.SexpNull, err
			}
		case 11:
			desc = "EvalString of an unterminated string, of a stray closer, of an unterminated block comment"
			f = func() (zygo.Sexp, error) {
				env.EvalString("(def s9 \"abc\n")
				env.EvalString(")\n")
				return env.EvalString("/* open\n")
			}
		case 12:
			desc = "AddGlobal of odd values, then use"
			f = func() (zygo.Sexp, error) {
				env.AddGlobal("gnil9", zygo.SexpNull)
				env.AddGlobal("gmark9", zygo.SexpMarker)
				return env.EvalString("(list gnil9 (str gmark9) (type? gmark9))\n")
			}
		case 13:
			desc = "host function that fails / panics / re-enters Apply with a wrong count"
			f = func() (zygo.Sexp, error) {
				env.AddFunction("hostbad9", func(e *zygo.Zlisp, name string, args []zygo.Sexp) (zygo.Sexp, error) {
					if len(args) > 0 {
						panic("hostbad9 panics")
					}
					return e.Apply(get("addk"), []zygo.Sexp{&zygo.SexpInt{Val: 1}})
				})
				env.EvalString("(hostbad9)\n")
				return env.EvalString("(hostbad9 1)\n")
			}
		default:
			desc = "Apply(addk, 2 args) correctly"
			f = func() (zygo.Sexp, error) {
				return env.Apply(get("addk"), []zygo.Sexp{&zygo.SexpInt{Val: 1}, &zygo.SexpInt{Val: 2}})
			}
		}
		hist = append(hist, desc)
		res.Ev("api_misuse_steps", 1)
		o := sut.Call(300000, f)
		res.Evals++
		if o.Panic != "" {
			res.Violate("escaped-panic:"+o.Site, fmt.Sprintf("host-API step %q: a Go panic escaped the library: %s (earlier steps: %v)", desc, core.Trunc(o.Panic, 300), hist), strings.Join(hist, " ; "))
			return
		}
		// ordinary evaluations afterwards must return (a value or an error) and still work
		for _, t := range []string{"(+ 1 2)\n", "(addk 1 2)\n", "(incm 4)\n"} {
			o2 := sut.Eval(env, t, 300000)
			res.Evals++
			if o2.Panic != "" {
				res.Violate("escaped-panic:"+o2.Site, fmt.Sprintf("EvalString(%q) after host-API step %q: a Go panic escaped the library: %s", t, desc, core.Trunc(o2.Panic, 300)), strings.Join(hist, " ; ")+" ; "+t)
				return
			}
			if o2.Budget {
				res.Violate("did-not-return-after-api-step", fmt.Sprintf("EvalString(%q) after host-API step %q exceeded its step budget", t, desc), strings.Join(hist, " ; "))
				return
			}
		}
	}
	res.Input = "host-API misuse: " + strings.Join(hist, " ; ")
}

func c01Mutate(r *core.Rng, t string) string {
	if len(t) < 4 {
		return t
	}
	b := []byte(t)
	switch r.N(7) {
	case 0: // delete a span
		a := r.N(len(b) - 1)
		e := a + 1 + r.N(6)
		if e > len(b) {
			e = len(b)
		}
		b = append(b[:a:a], b[e:]...)
	case 1: // duplicate a span
		a := r.N(len(b) - 1)
		e := a + 1 + r.N(8)
		if e > len(b) {
			e = len(b)
		}
		b = append(b[:e:e], append(append([]byte{}, b[a:e]...), b[e:]...)...)
	case 2: // truncate
		b = b[:1+r.N(len(b)-1)]
	case 3: // replace a byte by a hostile one
		hostile := "()[]{}'\"`~^%#:;\\.-+0"
		b[r.N(len(b))] = hostile[r.N(len(hostile))]
	case 4: // swap two bytes
		x, y := r.N(len(b)), r.N(len(b))
		b[x], b[y] = b[y], b[x]
	case 5: // replace a token
		toks := strings.Fields(t)
		if len(toks) > 1 {
			toks[r.N(len(toks))] = c01Alphabet[r.N(len(c01Alphabet))]
			return strings.Join(toks, " ") + "\n"
		}
	case 6: // splice a hostile token in
		a := r.N(len(b))
		ins := " " + c01Alphabet[r.N(len(c01Alphabet))] + " "
		b = append(b[:a:a], append([]byte(ins), b[a:]...)...)
	}
	if len(b) > 9000 {
		b = b[:9000]
	}
	return string(b)
}

// the real REPL and CLI: monitor = exit status and panic/fatal lines on stderr
func c01Repl(c *core.Ctx, res *core.Result, r *core.Rng, i int) {
	zygoBin := filepath.Join(c.BinDir, "zygo")
	if _, err := os.Stat(zygoBin); err != nil {
		return
	}
	A := c01Alphabet
	var lines []string
	for k := 0; k < 40; k++ {
		switch r.N(4) {
		case 0:
			n := 1 + r.N(3)
			var toks []string
			for j := 0; j < n; j++ {
				t := A[r.N(len(A))]
				if t == "\n" {
					t = " "
				}
				toks = append(toks, t)
			}
			lines = append(lines, strings.Join(toks, []string{" ", ""}[r.N(2)]))
		case 1:
			lines = append(lines, "("+c01special[r.N(len(c01special))]+")")
		case 2:
			lines = append(lines, "("+c01names[r.N(len(c01names))]+" "+c01ArgKinds[r.N(len(c01ArgKinds))]+")")
		default:
			lines = append(lines, []string{"(and)", "(or)", "(let)", "(cond)", "(def x (and))", "(def c [1]) (aset c 0 c) c", ")", "]", "(+ 1", "{\"", "{`", "(quote a b)", "(for [1 2] 3)"}[r.N(13)])
		}
	}
	died := func(out string, err error) string {
		for _, l := range strings.Split(out, "\n") {
			// an uncaught Go panic prints "panic: …" / "fatal error: …" at the start of a line
			// (a panic caught by the library only shows up inside an error text)
			if strings.HasPrefix(l, "panic: ") || strings.HasPrefix(l, "fatal error:") {
				return l
			}
		}
		return ""
	}
	run := func(ls []string) (string, string) {
		cmd := core.DieWithParent(exec.Command(zygoBin, "-no-liner", "-quiet"))
		cmd.Stdin = strings.NewReader(strings.Join(ls, "\n") + "\n")
		cmd.Dir = c.Work
		var buf bytes.Buffer
		cmd.Stdout, cmd.Stderr = &buf, &buf
		done := make(chan error, 1)
		cmd.Start()
		go func() { done <- cmd.Wait() }()
		select {
		case err := <-done:
			return died(buf.String(), err), buf.String()
		case <-time.After(60 * time.Second):
			cmd.Process.Kill()
			<-done
			return "", "timeout"
		}
	}
	res.Ev("repl_lines", int64(len(lines)))
	if why, _ := run(lines); why != "" {
		// attribute: find the first line that kills a fresh REPL on its own
		for _, l := range lines {
			if w, out := run([]string{l}); w != "" {
				res.Violate("repl-killed:"+c01PanicClass(out), fmt.Sprintf("the line %q ends the REPL process: %s", l, w), l)
				break
			}
		}
		if res.Verdict != core.Violated {
			res.Violate("repl-killed:by-a-sequence", fmt.Sprintf("a sequence of %d lines ends the REPL process: %s", len(lines), why), strings.Join(lines, "\n"))
		}
	}
	// cmd/zygo -c
	for k := 0; k < 6; k++ {
		t := lines[r.N(len(lines))]
		cmd := core.DieWithParent(exec.Command(zygoBin, "-c", t))
		cmd.Dir = c.Work
		out, err := cmd.CombinedOutput()
		res.Ev("cli_runs", 1)
		if w := died(string(out), err); w != "" {
			res.Violate("cli-killed:"+c01PanicClass(string(out)), fmt.Sprintf("zygo -c %q ends with a Go panic: %s", t, w), t)
			break
		}
	}
	res.Input = "REPL lines: " + core.Trunc(strings.Join(lines, " ⏎ "), 1200)
}

func c01PanicClass(out string) string {
	for _, l := range strings.Split(out, "\n") {
		if strings.HasPrefix(l, "github.com/glycerine/zygomys/v9/zygo.") {
			s := strings.TrimPrefix(l, "github.com/glycerine/zygomys/v9/zygo.")
			if k := strings.LastIndex(s, "("); k > 0 {
				s = s[:k]
			}
			return s
		}
	}
	return "?"
}
