package props

import (
	"bytes"
	"fmt"
	"os"
	"os/exec"
	"path/filepath"
	"sort"
	"strings"
	"sync"

	"github.com/glycerine/zygomys/v9/zygo"
	"zyverif/core"
	"zyverif/lang"
	"zyverif/sut"
)

// C13 — parsing depends only on the text (DESIGN §4.C13).

var c13Hand = []string{
	"(def a 12) (+ a -3) \"str(\" [1 2 {x + 1}] // c\n(f `raw\n(` 1.5e-3) /* blk ( */ zz\n",
	"{a := 3; b = a ** 2}\n(defn f [x] (cond (== x 0) %(q ~x) ^(1 ~@l)))\n",
	"'a' '\\n' (hash a:1 b:\"x\") -1 a.b.c 0x1F 12ULL \n",
	"(+ 1 2)\n-1 \n",
	"(a b) -9223372036854775808 +5 -2.5e-3 1e+9 \n",
	"(list \"a\\\"b\" \"\\\\\" \"tab\\there\") x\n",
	"(quote sym) sym2: #lazy $dollar a->b a<-b x.y.z \n",
	"[1 [2 [3 [4]]]] {a: 1 b: {c: 2}} ((())) \n",
	"/* c1 */ (a /* c2 ( */ b) // trailing ) comment\n(c)\n",
	"(def s `multi\nline ) raw`) (t)\n",
	"{x = a[1] + b[2:3] - c.d; y = not x}\n",
	"(for L1: [(def i 0) (< i 3) (def i (+ i 1))] (break L1:))\n",
	"(fn [a & r] r) (defn g [#z] (force #z))\n",
	"%a %(b c) ^(d ~e ~@f) ~g \n",
	"1 2 3\n4 5 6\n",
	"   \n\t\n(x)\n\n\n",
	"(a)(b)(c)[d]{e}\n",
	"(str 12) 0b101 0o17 1_000 1.5 .5 5. \n",
	"(== 'x' 'y') (!= a b) (<= a b) (>= a b) (** a b) (:= a 1) (+= a 1) (-= a 1) (++ a) (-- a)\n",
	"true false nil NaN Inf -Inf \n",
	"{ // settings\n a: 1 b: 2}\n",
	"{ /* c */ a: 1 b: [1 2]}\n{\n// c1\n// c2\n k: \"v\"}\n",
	"(def h { // c\n a: 1}) {// lead\n x + 1}\n",
	"{ // only a comment before the closing brace\n}\n(f {/*c*/})\n",
}

var (
	c13once  sync.Once
	c13texts []string
)

func c13Parse(t string) (string, string) { // printed list, error kind
	env := zygo.NewZlisp()
	p := env.NewParser()
	var out string
	kind := ""
	pan, site := sut.Protect(func() {
		p.ResetAddNewInput(bytes.NewBufferString(t))
		xs, err := p.ParseTokens()
		out, kind = c13Show(xs), c13Kind(err)
		p.Stop()
	})
	if pan != "" {
		return "", "PANIC:" + site + ":" + pan
	}
	return out, kind
}

func c13Show(xs []zygo.Sexp) string {
	var b strings.Builder
	for _, x := range xs {
		if x == nil {
			b.WriteString("<nil-Sexp>")
		} else {
			b.WriteString(x.SexpString(nil))
		}
		b.WriteString(" | ")
	}
	return b.String()
}

func c13Kind(err error) string {
	switch {
	case err == nil:
		return ""
	case err == zygo.ErrMoreInputNeeded || strings.Contains(err.Error(), "parser needs more input"):
		return "more-input"
	}
	return "hard-error"
}

// corpus + generated texts that parse completely as a whole
func c13Texts(c *core.Ctx) []string {
	c13once.Do(func() {
		seen := map[string]bool{}
		add := func(t string) {
			if len(t) == 0 || len(t) > 400 || seen[t] {
				return
			}
			if _, kind := c13Parse(t); kind != "" {
				return // only texts that are complete and valid as a whole
			}
			seen[t] = true
			c13texts = append(c13texts, t)
		}
		for _, t := range c13Hand {
			add(t)
		}
		files, _ := filepath.Glob(filepath.Join(c.Repo, "tests", "*.zy"))
		sort.Strings(files)
		for _, f := range files {
			b, err := os.ReadFile(f)
			if err != nil {
				continue
			}
			lines := strings.SplitAfter(string(b), "\n")
			// line-aligned windows of up to ~200 bytes
			for start := 0; start < len(lines); {
				w := ""
				end := start
				for end < len(lines) && len(w)+len(lines[end]) <= 200 {
					w += lines[end]
					end++
				}
				if end == start {
					end = start + 1
				}
				add(w)
				start = end
			}
		}
		n := 150
		if c.Thor {
			n = 1500
		}
		for i := 0; i < n; i++ {
			g := &lang.G{R: core.NewRng(c.Seed, "C13g", i, 0), C: lang.Cfg{Depth: 3, Pool: []string{"a", "b", "c"}, Data: true, HigherOrder: true, Variadic: true, Lazy: i%3 == 0, TrOneIn: 4}}
			prog := g.Program()
			if i%2 == 0 {
				add(lang.Plain.Program(prog))
			} else {
				add((&lang.Printer{Noise: core.NewRng(c.Seed, "C13n", i, 0)}).Program(prog))
			}
			// infix renderings from the C06 machinery
			cs := c06Build(c, i)
			if cs.kind == "tree" {
				add("{" + c06Render(cs.toks, cs.mode, core.NewRng(c.Seed, "C13r", i, 0)) + "}\n")
			}
		}
	})
	return c13texts
}

// prefix classifier: is the delivered prefix an unfinished text?
// returns (unfinished, certain). certain=false when the prefix ends in a
// position the simple classifier does not model (char literals, escapes).
func c13Unfinished(p string) (bool, bool) {
	depth := 0
	i := 0
	n := len(p)
	for i < n {
		ch := p[i]
		switch {
		case ch == '"':
			i++
			closed := false
			for i < n {
				if p[i] == '\\' {
					i += 2
					continue
				}
				if p[i] == '"' {
					closed = true
					i++
					break
				}
				i++
			}
			if !closed {
				return true, i <= n // inside a string
			}
			continue
		case ch == '`':
			j := strings.IndexByte(p[i+1:], '`')
			if j < 0 {
				return true, true
			}
			i += j + 2
			continue
		case ch == '/' && i+1 < n && p[i+1] == '/':
			j := strings.IndexByte(p[i:], '\n')
			if j < 0 {
				return depth > 0, false // inside a line comment: whether more is needed depends on depth; stay uncertain
			}
			i += j + 1
			continue
		case ch == '/' && i+1 < n && p[i+1] == '*':
			j := strings.Index(p[i+2:], "*/")
			if j < 0 {
				return true, true
			}
			i += j + 4
			continue
		case ch == '/' && i+1 == n:
			return depth > 0, false // could be the start of a comment
		case ch == '\'':
			return false, false // char literals are not modelled
		case ch == '(' || ch == '[' || ch == '{':
			depth++
		case ch == ')' || ch == ']' || ch == '}':
			depth--
		}
		i++
	}
	return depth > 0, true
}

func init() {
	core.Register(&core.Prop{
		ID:    "C13",
		Level: "exploration",
		Rule: "texts: 20 hand-written token-class texts, line-aligned windows (<=200 bytes) of every tests/*.zy script that parse completely, generated programs (plain and with whitespace/comment noise) and infix renderings. " +
			"(a) chunk invariance: every single cut position of every text exhaustively, every pair of cuts for texts <=40 (quick) / <=80 (thorough) bytes, and 3-6 random cuts: the expression list and error kind after the last piece must equal those of the whole text; " +
			"(b) pause correctness: an intermediate ParseTokens must report more-input iff a bracket/string/raw-string/block-comment classifier says the delivered prefix is unfinished, and never a hard error; " +
			"(c) history independence: after histories of 1-4 earlier loads (complete texts ending in every rune class, lexer errors mid-token, unbalanced closers, unfinished then abandoned input, evaluated or only parsed) the interpreter's own parser and EvalString must read a probe text exactly like a fresh interpreter; the same after loading and abandoning EVERY prefix of three token-rich texts (stopping the lexer inside escapes, exponents, multi-rune operators, comment openers, raw strings), each followed by 18 rich probes; " +
			"(d) last token: a text ending in an atom without trailing whitespace must give the same expressions as the text plus a newline, also when it is the content of a file read by include and by source; (e) long one-line and multi-line expressions (5-17 kB) fed to the real REPL must print what the text evaluates to. non-trivial = distinct (text, kind) whose text has >=2 top-level expressions or a nested bracket",
		Assumptions: []string{
			"(b) is judged only at cut positions the 60-line prefix classifier models with certainty (not inside char literals, not at a lone trailing '/', not inside a line comment)",
			"only texts that are complete and valid as a whole are cut",
		},
		NCases: func(c *core.Ctx) int {
			return 4*len(c13Texts(c)) + thorN(c, 1500, 20000) + c13PrefixCases() + c13ReplCases
		},
		Chunk:    100,
		Sanitize: true,
		MustSee:  []string{"single_cuts", "double_cuts", "pause_decisions", "history_probes", "last_token_probes", "abandoned_prefix_histories", "last_token_file_probes", "repl_long_lines"},
		Run:      c13Run,
	})
}

// deliver pieces to a fresh parser; returns final list/kind and, for each
// intermediate point, the kind returned.
func c13Pieces(pieces []string) (final string, kind string, inter []string, pan string) {
	env := zygo.NewZlisp()
	p := env.NewParser()
	pn, site := sut.Protect(func() {
		for k, piece := range pieces {
			if k == 0 {
				p.ResetAddNewInput(bytes.NewBufferString(piece))
			} else {
				p.NewInput(bytes.NewBufferString(piece))
			}
			xs, err := p.ParseTokens()
			if k == len(pieces)-1 {
				final, kind = c13Show(xs), c13Kind(err)
			} else {
				inter = append(inter, c13Kind(err))
			}
		}
		p.Stop()
	})
	if pn != "" {
		pan = site + ":" + pn
	}
	return
}

func c13Run(c *core.Ctx, i int) *core.Result {
	texts := c13Texts(c)
	nt := len(texts)
	res := &core.Result{}
	if i >= 4*nt+thorN(c, 1500, 20000)+c13PrefixCases() {
		return c13ReplLong(c, i-4*nt-thorN(c, 1500, 20000)-c13PrefixCases())
	}
	if i >= 4*nt+thorN(c, 1500, 20000) {
		return c13PrefixHistory(c, i-4*nt-thorN(c, 1500, 20000))
	}
	if i >= 4*nt {
		return c13History(c, i, texts)
	}
	T := texts[i%nt]
	kindOf := i / nt
	res.Input = T
	res.Hash = core.HashOf(fmt.Sprintf("%d|%s", kindOf, T))
	res.Nontrivial = strings.Count(T, "(")+strings.Count(T, "[")+strings.Count(T, "{") >= 2
	W, wk := c13Parse(T)
	if strings.HasPrefix(wk, "PANIC") {
		res.Violate("escaped-panic:"+wk, wk, T)
		return res
	}
	check := func(cuts []int) bool {
		var pieces []string
		prev := 0
		for _, cpos := range cuts {
			pieces = append(pieces, T[prev:cpos])
			prev = cpos
		}
		pieces = append(pieces, T[prev:])
		got, gk, inter, pan := c13Pieces(pieces)
		res.Evals++
		in := fmt.Sprintf("text %q delivered as %q", T, pieces)
		if pan != "" {
			res.Violate("escaped-panic:"+strings.SplitN(pan, ":", 2)[0], pan, in)
			return false
		}
		if got != W || gk != wk {
			res.Violate("chunking-changes-result:"+c13CutClass(T, cuts), fmt.Sprintf("whole text parses to [%s] (%s); in pieces to [%s] (%s)", W, wk, got, gk), in)
			return false
		}
		prefixLen := 0
		for k, ik := range inter {
			prefixLen = cuts[k]
			if ik == "hard-error" {
				res.Violate("hard-error-at-pause", fmt.Sprintf("after the prefix %q the parser reported a hard error although the whole text is valid", T[:prefixLen]), in)
				return false
			}
			unf, certain := c13Unfinished(T[:prefixLen])
			if !certain {
				continue
			}
			res.Ev("pause_decisions", 1)
			if unf && ik != "more-input" {
				res.Violate("no-more-input-request-on-unfinished-prefix", fmt.Sprintf("prefix %q is unfinished but ParseTokens returned %q instead of asking for more input", T[:prefixLen], ik), in)
				return false
			}
			if !unf && ik == "more-input" && strings.TrimSpace(T[:prefixLen]) != "" {
				// a balanced prefix may still end inside an atom: asking for more is then legitimate only
				// if the prefix does not end in whitespace or a closing bracket
				last := T[prefixLen-1]
				if last == ' ' || last == '\n' || last == ')' || last == ']' || last == '}' {
					res.Violate("more-input-request-on-finished-prefix", fmt.Sprintf("prefix %q is complete but ParseTokens asked for more input", T[:prefixLen]), in)
					return false
				}
			}
		}
		return true
	}
	switch kindOf {
	case 0: // every single cut
		for cut := 1; cut < len(T); cut++ {
			res.Ev("single_cuts", 1)
			if !check([]int{cut}) {
				break
			}
		}
	case 1: // every pair of cuts for short texts
		if len(T) <= thorN(c, 40, 80) {
			for a := 1; a < len(T); a++ {
				ok := true
				for b := a + 1; b < len(T); b++ {
					res.Ev("double_cuts", 1)
					if !check([]int{a, b}) {
						ok = false
						break
					}
				}
				if !ok {
					break
				}
			}
		} else {
			r := core.NewRng(c.Seed, "C13c", i, 0)
			for k := 0; k < 30; k++ {
				a := 1 + r.N(len(T)-2)
				b := a + 1 + r.N(len(T)-a-1)
				res.Ev("double_cuts", 1)
				if !check([]int{a, b}) {
					break
				}
			}
		}
	case 2: // 3-6 random cuts
		r := core.NewRng(c.Seed, "C13c", i, 0)
		for k := 0; k < 12 && len(T) > 8; k++ {
			set := map[int]bool{}
			for len(set) < 3+r.N(4) && len(set) < len(T)-2 {
				set[1+r.N(len(T)-1)] = true
			}
			var cuts []int
			for x := range set {
				cuts = append(cuts, x)
			}
			sort.Ints(cuts)
			res.Ev("multi_cuts", 1)
			if !check(cuts) {
				break
			}
		}
	case 3: // last token without trailing whitespace, through the whole-text entry point EvalString
		t := strings.TrimRight(T, " \t\n")
		tails := []string{"", "\n12", "\nzq9", "\n\"tail\"", "\n'c'", "\n[1 2]", "\n// trailing comment", "\n-7", "\n2.5"}
		for k, tail := range tails {
			tt := t + tail
			if tt == "" {
				continue
			}
			e1, e2 := NewSutRun(true), NewSutRun(true)
			e1.Eval("(def zq9 99)\n", 0)
			e2.Eval("(def zq9 99)\n", 0)
			x, y := e1.Eval(tt, 300000), e2.Eval(tt+"\n", 300000)
			res.Evals += 2
			res.Ev("last_token_probes", 1)
			if x.Panic != "" || y.Panic != "" {
				res.Violate("escaped-panic:"+x.Site+y.Site, x.Panic+y.Panic, tt)
				break
			}
			xs, ys := OutStr(x), OutStr(y)
			if x.Err != nil {
				xs = "ERR"
			}
			if y.Err != nil {
				ys = "ERR"
			}
			if xs != ys {
				res.Violate("last-token-lost:"+c13TailClass(tt), fmt.Sprintf("EvalString(%q) gives %s but with a final newline it gives %s", tt, OutStr(x), OutStr(y)), tt)
				break
			}
			// the same text read from a file that does not end in a newline, by include and by source
			if k%3 == 1 && y.Err == nil && !strings.Contains(tt, "(def ") && !strings.Contains(tt, "(defn ") {
				path := filepath.Join(c.Work, fmt.Sprintf("c13-last-%d-%d.zy", i, k))
				os.MkdirAll(c.Work, 0755)
				os.WriteFile(path, []byte(tt), 0644)
				bad := false
				for _, form := range []string{"include", "source"} {
					e3 := NewSutRun(true)
					e3.Eval("(def zq9 99)\n", 0)
					z := e3.Eval(fmt.Sprintf("(%s %q)\n", form, path), 300000)
					res.Evals++
					res.Ev("last_token_file_probes", 1)
					zs := OutStr(z)
					if z.Err != nil {
						zs = "ERR"
					}
					if zs != ys {
						res.Violate("last-token-lost:via-"+form, fmt.Sprintf("(%s f) of a file holding %q (no final newline) gives %s; the text evaluates to %s", form, tt, OutStr(z), OutStr(y)), tt)
						bad = true
						break
					}
				}
				os.Remove(path)
				if bad {
					break
				}
			}
			if k > 0 && x.Err == nil {
				want := []string{"", "12", "99", "\"tail\"", "c:99", "[1 2]", "", "-7", "f:2.5"}[k]
				if want != "" && xs != want {
					res.Violate("last-token-lost:"+c13TailClass(tt), fmt.Sprintf("EvalString(%q) must return the value of its last expression %s, got %s", tt, want, xs), tt)
					break
				}
			}
		}
	}
	return res
}

func c13EnvParse(env *zygo.Zlisp, t string) string {
	out := ""
	pan, site := sut.Protect(func() {
		p := env.VerifParser()
		p.ResetAddNewInput(bytes.NewBufferString(t))
		xs, err := p.ParseTokens()
		out = c13Show(xs) + "(" + c13Kind(err) + ")"
	})
	if pan != "" {
		return "PANIC " + site + " " + pan
	}
	return out
}

func c13TailClass(t string) string {
	ch := t[len(t)-1]
	switch {
	case ch == ')' || ch == ']' || ch == '}':
		return "closer"
	case ch == '"' || ch == '`':
		return "string"
	case ch >= '0' && ch <= '9':
		return "digit"
	case ch == '\'':
		return "char"
	}
	return "symbol"
}

func c13CutClass(T string, cuts []int) string {
	c := cuts[len(cuts)-1]
	if len(cuts) == 1 {
		before := T[:c]
		tb := strings.TrimRight(before, " \t\n")
		if tb != "" {
			switch tb[len(tb)-1] {
			case '%', '^', '~', '@':
				if len(tb) == len(before) || true {
					return "after-reader-prefix"
				}
			}
		}
		return "single-cut"
	}
	return fmt.Sprintf("%d-cuts", len(cuts))
}

// ---- history independence ----

var c13Hist = []string{
	"(+ 1 2)\n", "(def zz 5)\n", "[1 2 3]\n", "\"a string\"\n", "sym\n", "12\n", "-7 \n", "(a b) c.d \n", "{x + 1}\n", "'c'\n", "3.5e-3\n", "`raw`\n", "// comment\n", "/* block */\n",
	"(+ 1 2", "[1 2", "\"unterminated", "`raw open", "/* open comment", "{a +", // unfinished then abandoned
	")", "]", "(a))", "(list 4\"q\")", "bar%baz", "(1 . )", "#", "\\", "(def s \"abc", "1.2.3.4", "'ab'", "0x", // lexer / syntax errors
	"(+ 1 2) -", "(a b) +", "x -", "12 e", "(f)~", "(g) ^", "z %", "1 :", // ends in sign / prefix runes
}

var c13Probes = []string{
	"-1 \n", "+5 \n", "(- 3)\n", "-9223372036854775808 \n", "2\n", "\"s\"\n", "(+ 1 2)\n", "abc \n", "1e-5 \n", "-2.5 \n", "[1 -2 -3]\n", "(quote (a -1))\n", "'x' \n", "{7 - 2}\n", "{a = 5 -3}\n", "%(a b)\n", "^(a ~b)\n", "-x \n",
}

func c13History(c *core.Ctx, i int, texts []string) *core.Result {
	r := core.NewRng(c.Seed, "C13h", i, 0)
	res := &core.Result{Nontrivial: true}
	var hist []string
	for k := 1 + r.N(4); k > 0; k-- {
		if r.N(4) == 0 && len(texts) > 0 {
			hist = append(hist, texts[r.N(len(texts))])
		} else {
			hist = append(hist, c13Hist[r.N(len(c13Hist))])
		}
	}
	probe := c13Probes[r.N(len(c13Probes))]
	if r.N(5) == 0 && len(texts) > 0 {
		probe = texts[r.N(len(texts))]
	}
	viaEval := r.Bool()
	env := zygo.NewZlisp()
	for _, h := range hist {
		if viaEval {
			sut.Eval(env, h, 100000)
		} else {
			c13EnvParse(env, h)
		}
	}
	fresh := zygo.NewZlisp()
	res.Input = fmt.Sprintf("history %q (via %s) then probe %q", hist, map[bool]string{true: "EvalString", false: "the interpreter's parser"}[viaEval], probe)
	res.Hash = core.HashOf(res.Input)
	got, want := c13EnvParse(env, probe), c13EnvParse(fresh, probe)
	res.Evals += 2
	res.Ev("history_probes", 1)
	if got != want {
		res.Violate("history-changes-parse:"+c13ProbeClass(probe), fmt.Sprintf("a fresh interpreter reads %q as [%s]; after the history it reads [%s]", probe, want, got), res.Input)
		return res
	}
	// and at EvalString level for probes whose value does not depend on definitions
	if !strings.ContainsAny(probe, "abcxz") || strings.HasPrefix(probe, "(quote") || strings.HasPrefix(probe, "%") {
		a, b := sut.Eval(env, probe, 100000), sut.Eval(fresh, probe, 100000)
		x, y := OutStr(a), OutStr(b)
		if a.Err != nil {
			x = "ERR"
		}
		if b.Err != nil {
			y = "ERR"
		}
		res.Ev("history_eval_probes", 1)
		if x != y {
			res.Violate("history-changes-evaluation:"+c13ProbeClass(probe), fmt.Sprintf("a fresh interpreter evaluates %q to %s; after the history to %s", probe, OutStr(b), OutStr(a)), res.Input)
		}
	}
	return res
}

// Abandoned-prefix histories: token-rich texts cut at EVERY byte position; the prefix is loaded
// (it may stop the lexer in any of its sub-states: inside an escape, an exponent, a multi-rune
// operator, a comment opener …) and abandoned; then every rich probe must read as in a fresh interpreter.
var c13Rich = []string{
	"(f \"a\\x41\\u00e9\\U0001F600\\n\\t\\\\\" '\\x42' 'c' '\\n' 1.5e-3 -2.5E+7 0x1F 0o17 0b101 12ULL 1_000 a.b.c k: ~@(x) ^(y ~z) %q `raw text` {p := -1} /* c */ ; // d\n",
	"{a := b[1:2] ** -3 ; h.x.y += 0x1f ; if a <= b { c-- } else { c++ } ; for i := 0; i < 3; i++ { s = s + \"\\u0041\" } ; x -> y}\n",
	"(def s \"tab\\there \\\"q\\\" \\x4a\") [1 -2 +3 -Inf +Inf NaN 1e5 .5 1.] (quote (a \\ b)) #lazy 'é' '\\'' \"\" `` (fn [x & r] x) p.q: $ ? -x\n",
}

var c13RichProbes = []string{
	"\"\\x41\"\n", "'\\x41' \n", "\"\\u00e9\\U0001F600\"\n", "'\\n' \n", "\"a\\tb\"\n", "0x1F \n", "1.5e3 \n", "-2.5E-7 \n", "a.b.c \n", "k: \n", "^(a ~@(b) ~c)\n", "(a := 3)\n", "12ULL \n", "`raw`\n", "{x ** 2 -> y}\n", "-1 \n", "+Inf \n", "'c' \n",
}

func c13PrefixCases() int {
	n := 0
	for _, t := range c13Rich {
		n += len(t)
	}
	return n
}

func c13PrefixHistory(c *core.Ctx, k int) *core.Result {
	ti := 0
	for k >= len(c13Rich[ti]) {
		k -= len(c13Rich[ti])
		ti++
	}
	prefix := c13Rich[ti][:k+1]
	res := &core.Result{Nontrivial: true, Input: fmt.Sprintf("abandoned prefix %q, then the rich probes", prefix)}
	res.Hash = core.HashOf(res.Input)
	for _, viaEval := range []bool{false, true} {
		for _, twice := range []bool{false, true} {
			env := zygo.NewZlisp()
			load := func(t string) {
				if viaEval {
					sut.Eval(env, t, 100000)
				} else {
					c13EnvParse(env, t)
				}
			}
			load(prefix)
			if twice { // a second abandoned text on top of the first
				load(c13Rich[(ti+1)%len(c13Rich)][:1+k%len(c13Rich[(ti+1)%len(c13Rich)])])
			}
			for _, probe := range c13RichProbes {
				fresh := zygo.NewZlisp()
				got, want := c13EnvParse(env, probe), c13EnvParse(fresh, probe)
				res.Evals += 2
				res.Ev("abandoned_prefix_histories", 1)
				if got != want {
					res.Violate("history-changes-parse:after-abandoned-prefix", fmt.Sprintf("a fresh interpreter reads %q as [%s]; after loading and abandoning the prefix %q (via %s) it reads [%s]", probe, want, prefix, map[bool]string{true: "EvalString", false: "the interpreter's parser"}[viaEval], got), res.Input)
					return res
				}
			}
		}
	}
	return res
}

// The REPL's line reader delivers the text in pieces of its own (physical lines, and parts of
// lines longer than its buffer): a long one-line expression and a long multi-line expression fed
// to the real cmd/zygo REPL must print what EvalString computes for the same text.
const c13ReplCases = 6

func c13ReplLong(c *core.Ctx, k int) *core.Result {
	res := &core.Result{Nontrivial: true}
	var b strings.Builder
	want := int64(0)
	n := []int{700, 1300, 2100, 600, 900, 1700}[k%6] // 8-byte items: lines of 4.8 to 17 kB
	switch k % 3 {
	case 0: // one physical line of numbers
		b.WriteString("(+")
		for j := 0; j < n; j++ {
			v := int64(1000000 + (j*7919)%8999999)
			fmt.Fprintf(&b, " %d", v)
			want += v
		}
		b.WriteString(")")
	case 1: // one physical line holding a long string literal and its length
		b.WriteString("(len \"")
		for j := 0; j < n; j++ {
			b.WriteString("abcdefg ")
		}
		b.WriteString("\")")
		want = int64(8 * n)
	case 2: // the same sum spread over many short lines with one very long line in the middle
		b.WriteString("(+ 1\n 2\n")
		want = 3
		for j := 0; j < n; j++ {
			v := int64(2000000 + (j*104729)%7999999)
			fmt.Fprintf(&b, " %d", v)
			want += v
		}
		b.WriteString("\n 4\n)")
		want += 4
	}
	text := b.String()
	res.Input = core.Trunc(text, 300)
	res.Hash = core.HashOf(text)
	zygoBin := filepath.Join(c.BinDir, "zygo")
	cmd := core.DieWithParent(exec.Command(zygoBin, "-no-liner", "-quiet"))
	cmd.Stdin = strings.NewReader(text + "\n")
	cmd.Dir = c.Work
	os.MkdirAll(c.Work, 0755)
	out, err := cmd.CombinedOutput()
	res.Evals++
	res.Ev("repl_long_lines", 1)
	if err != nil && len(out) == 0 {
		res.Verdict, res.Key, res.Detail = core.Inconclusive, "repl-could-not-run", err.Error()
		return res
	}
	if !strings.Contains(string(out), fmt.Sprint(want)) {
		res.Violate("repl-line-pieces-change-result", fmt.Sprintf("a %d-byte expression fed to the REPL must print %d; the REPL printed %s", len(text), want, core.Trunc(string(out), 400)), core.Trunc(text, 2000))
	}
	return res
}

func c13ProbeClass(p string) string {
	switch {
	case strings.HasPrefix(p, "-") || strings.HasPrefix(p, "+"):
		return "sign-leading"
	case strings.HasPrefix(p, "(") || strings.HasPrefix(p, "[") || strings.HasPrefix(p, "{"):
		return "bracket-leading"
	}
	return "atom-leading"
}
