package props

import (
	"bytes"
	"fmt"
	"strings"

	"github.com/glycerine/zygomys/v9/zygo"
	"zyverif/core"
	"zyverif/sut"
)

// Host-API sequences (shared by C04 and C05): the same interpreter is driven through the
// Go entry points an embedding host uses — EvalString, LoadString (several times) + Run,
// EvalExpressions on parsed forms, Apply at top level, Duplicate — in random order, with
// (C05) or without (C04) failing steps in between. A model keeps the integer globals the
// steps define; after every step the value returned must be the model's, the VM must be at
// rest, and every few steps all globals are read back through EvalString.

type apiStep struct {
	kind string // eval load1 load3 exprs apply applybad dup loadbad evalbad lazyfail macrofail
	desc string
}

type apiModel struct {
	vars  map[string]int64
	order []string
	n     int
}

func (m *apiModel) newVar() string {
	m.n++
	return fmt.Sprintf("av%d", m.n)
}

func (m *apiModel) set(name string, v int64) {
	if _, ok := m.vars[name]; !ok {
		m.order = append(m.order, name)
	}
	m.vars[name] = v
}

// apiSeqRun drives one sequence. failing=false: only steps that succeed (C04's subject);
// failing=true: failing steps are mixed in (C05's subject). Returns false after a violation.
func apiSeqRun(res *core.Result, r *core.Rng, steps int, failing bool, prefix string) bool {
	env := zygo.NewZlisp()
	env.StandardSetup()
	// a host function that applies its first argument to the rest and handles the failure itself
	env.AddFunction("try9", func(e *zygo.Zlisp, name string, args []zygo.Sexp) (zygo.Sexp, error) {
		f, ok := args[0].(*zygo.SexpFunction)
		if !ok {
			return zygo.SexpNull, fmt.Errorf("try9: not a function")
		}
		if _, err := e.Apply(f, args[1:]); err != nil {
			return &zygo.SexpStr{S: "caught"}, nil
		}
		return &zygo.SexpStr{S: "fine"}, nil
	})
	m := &apiModel{vars: map[string]int64{}}
	var hist []string
	viol := func(key, detail string) bool {
		res.Violate(prefix+key, detail+"\n  history: "+strings.Join(hist, " ; "), strings.Join(hist, "\n"))
		return false
	}
	call := func(f func() (zygo.Sexp, error)) *sut.Outcome { return sut.Call(400000, f) }
	// a function and a macro every sequence can use
	env.EvalString("(defn addk [a b] (+ a b 1)) (defmac incm [x] ^(+ 1 ~x)) (defn lazyk [#x y] (cond (> y 0) (force #x) y))\n")
	for st := 0; st < steps; st++ {
		kinds := []string{"eval", "load1", "load3", "exprs", "apply", "dup", "evalmacro", "evalfn", "loadpending"}
		if failing {
			kinds = append(kinds, "loadbad", "evalbad", "applybad", "macrofail", "lazyfail", "pendingthenbad", "parsebad", "runtimefail", "hostabsorbs")
		}
		kind := kinds[r.N(len(kinds))]
		name := m.newVar()
		val := int64(r.N(1000))
		var o *sut.Outcome
		want := ""
		wantErr := false
		switch kind {
		case "eval":
			t := fmt.Sprintf("(def %s %d) (+ %s 1)\n", name, val, name)
			hist = append(hist, "EvalString "+strings.TrimSpace(t))
			o = call(func() (zygo.Sexp, error) { return env.EvalString(t) })
			m.set(name, val)
			want = fmt.Sprint(val + 1)
		case "evalmacro":
			t := fmt.Sprintf("(def %s (incm %d)) (range k v [1 2] (set %s (+ %s v))) %s\n", name, val, name, name, name)
			hist = append(hist, "EvalString "+strings.TrimSpace(t))
			o = call(func() (zygo.Sexp, error) { return env.EvalString(t) })
			m.set(name, val+4)
			want = fmt.Sprint(val + 4)
		case "evalfn":
			t := fmt.Sprintf("(def %s (lazyk (addk %d 1) 1)) %s\n", name, val, name)
			hist = append(hist, "EvalString "+strings.TrimSpace(t))
			o = call(func() (zygo.Sexp, error) { return env.EvalString(t) })
			m.set(name, val+2)
			want = fmt.Sprint(val + 2)
		case "load1":
			t := fmt.Sprintf("(def %s %d) (* %s 2)\n", name, val, name)
			hist = append(hist, "LoadString+Run "+strings.TrimSpace(t))
			o = call(func() (zygo.Sexp, error) {
				if err := env.LoadString(t); err != nil {
					return nil, err
				}
				return env.Run()
			})
			m.set(name, val)
			want = fmt.Sprint(val * 2)
		case "load3", "loadpending":
			n2, n3 := m.newVar(), m.newVar()
			ts := []string{fmt.Sprintf("(def %s %d) 111\n", name, val), fmt.Sprintf("(def %s (+ %s 1)) 222\n", n2, name), fmt.Sprintf("(def %s (+ %s 1)) (+ %s 0)\n", n3, n2, n3)}
			hist = append(hist, "LoadString x3 then Run "+strings.TrimSpace(strings.Join(ts, " | ")))
			o = call(func() (zygo.Sexp, error) {
				for _, t := range ts {
					if err := env.LoadString(t); err != nil {
						return nil, err
					}
				}
				return env.Run()
			})
			m.set(name, val)
			m.set(n2, val+1)
			m.set(n3, val+2)
			want = fmt.Sprint(val + 2)
		case "exprs":
			t := fmt.Sprintf("(def %s %d) (- %s 1)\n", name, val, name)
			hist = append(hist, "ParseTokens+EvalExpressions "+strings.TrimSpace(t))
			o = call(func() (zygo.Sexp, error) {
				p := env.NewParser()
				p.ResetAddNewInput(bytes.NewBufferString(t))
				xs, err := p.ParseTokens()
				p.Stop()
				if err != nil {
					return nil, err
				}
				return env.EvalExpressions(xs)
			})
			m.set(name, val)
			want = fmt.Sprint(val - 1)
		case "apply":
			hist = append(hist, fmt.Sprintf("Apply addk %d 5", val))
			o = call(func() (zygo.Sexp, error) {
				f, ok := env.FindObject("addk")
				if !ok {
					return nil, fmt.Errorf("addk not found")
				}
				return env.Apply(f.(*zygo.SexpFunction), []zygo.Sexp{&zygo.SexpInt{Val: val}, &zygo.SexpInt{Val: 5}})
			})
			want = fmt.Sprint(val + 6)
		case "dup":
			t := fmt.Sprintf("(def %s %d) (+ %s 7)\n", name, val, name)
			hist = append(hist, "Duplicate().EvalString "+strings.TrimSpace(t))
			o = call(func() (zygo.Sexp, error) { return env.Duplicate().EvalString(t) })
			// a duplicate shares the global scope with its original
			m.set(name, val)
			want = fmt.Sprint(val + 7)
		case "applybad":
			hist = append(hist, "Apply addk with one argument")
			o = call(func() (zygo.Sexp, error) {
				f, _ := env.FindObject("addk")
				return env.Apply(f.(*zygo.SexpFunction), []zygo.Sexp{&zygo.SexpInt{Val: val}})
			})
			wantErr = true
		case "loadbad":
			t := fmt.Sprintf("(def %s %d) (for [1 2] 3)\n", name, val)
			hist = append(hist, "LoadString (fails to compile) "+strings.TrimSpace(t))
			o = call(func() (zygo.Sexp, error) {
				if err := env.LoadString(t); err != nil {
					return nil, err
				}
				return env.Run()
			})
			wantErr = true
		case "pendingthenbad":
			ta := fmt.Sprintf("(def %s %d) (+ %s 3)\n", name, val, name)
			hist = append(hist, "LoadString (not run) "+strings.TrimSpace(ta)+" | LoadString (fails to compile) (let) | Run")
			o = call(func() (zygo.Sexp, error) {
				if err := env.LoadString(ta); err != nil {
					return nil, err
				}
				if err := env.LoadString("(let)\n"); err == nil {
					return nil, fmt.Errorf("HARNESS: (let) loaded without error")
				}
				return env.Run()
			})
			m.set(name, val)
			want = fmt.Sprint(val + 3)
		case "evalbad":
			t := fmt.Sprintf("(def %s %d) (undefinedapi9 %s)\n", name, val, name)
			hist = append(hist, "EvalString "+strings.TrimSpace(t))
			o = call(func() (zygo.Sexp, error) { return env.EvalString(t) })
			m.set(name, val) // the definition before the failure stays
			wantErr = true
		case "hostabsorbs":
			// the failure happens inside a Go builtin that re-entered the VM, applied by a host function that
			// handles the error: the evaluation goes on as if the call had returned "caught"
			inner := []string{"eval (quote (car 5))", "(fn [x] (car x)) 5", "map (fn [x] (car x)) [1 2]", "apply (fn [x] (aget [1] x)) [7]", "hget (hash a: 1) (quote (car 5)) 7", "eval (quote (let))", "addk 1", "(fn [] (undefinedapi9 1))"}[r.N(8)]
			t := fmt.Sprintf("(def %s %d) (def r9 (try9 %s)) (list r9 (+ %s 1))\n", name, val, inner, name)
			hist = append(hist, "EvalString "+strings.TrimSpace(t))
			o = call(func() (zygo.Sexp, error) { return env.EvalString(t) })
			m.set(name, val)
			want = fmt.Sprintf(`("caught" %d)`, val+1)
		case "runtimefail":
			t := fmt.Sprintf("(def %s %d) (let [q 1] (for [(def i 0) (< i 3) (def i (+ i 1))] (addk (aget [1] 7) i)))\n", name, val)
			hist = append(hist, "EvalString "+strings.TrimSpace(t))
			o = call(func() (zygo.Sexp, error) { return env.EvalString(t) })
			m.set(name, val)
			wantErr = true
		case "parsebad":
			t := fmt.Sprintf("(def %s %d) )\n", name, val)
			hist = append(hist, "EvalString "+strings.TrimSpace(t))
			o = call(func() (zygo.Sexp, error) { return env.EvalString(t) })
			wantErr = true
		case "macrofail":
			t := []string{"(defmac forever9 [x] ^(forever9 ~x)) (forever9 1)\n", "(defmac badm9 [x] ^(let [q] ~x)) (badm9 1)\n"}[r.N(2)]
			hist = append(hist, "EvalString "+strings.TrimSpace(t))
			o = call(func() (zygo.Sexp, error) { return env.EvalString(t) })
			wantErr = true
		case "lazyfail":
			// a lazy argument that outlives its failed force must fail again, and succeed once it can
			late := m.newVar()
			t1 := fmt.Sprintf("(def saved9 nil) (defn keep9 [#x] (set saved9 #x) 0) (keep9 (+ %s 1)) (force saved9)\n", late)
			hist = append(hist, "EvalString "+strings.TrimSpace(t1)+" | (force saved9) | (def "+late+" 5) (force saved9)")
			o1 := call(func() (zygo.Sexp, error) { return env.EvalString(t1) })
			o2 := call(func() (zygo.Sexp, error) { return env.EvalString("(force saved9)\n") })
			res.Evals += 2
			if o1.Panic != "" || o2.Panic != "" {
				return viol("escaped-panic:"+o1.Site+o2.Site, o1.Panic+o2.Panic)
			}
			if o1.Err == nil || o2.Err == nil {
				return viol("failed-force-swallowed", fmt.Sprintf("forcing a lazy argument whose expression reads the undefined %s must fail every time: first %s, second %s", late, OutStr(o1), OutStr(o2)))
			}
			t := fmt.Sprintf("(def %s 5) (force saved9)\n", late)
			o = call(func() (zygo.Sexp, error) { return env.EvalString(t) })
			m.set(late, 5)
			want = "6"
		}
		res.Evals++
		res.Ev("api_steps", 1)
		if o.Panic != "" {
			return viol("escaped-panic:"+o.Site, o.Panic)
		}
		if o.Budget {
			return viol("did-not-return", "the step exceeded its step budget")
		}
		if wantErr {
			res.Ev("api_failing_steps", 1)
			if o.Err == nil {
				return viol("error-swallowed", fmt.Sprintf("step %d (%s) must fail, it returned %s", st, kind, OutStr(o)))
			}
		} else {
			if o.Err != nil {
				return viol("spurious-error", fmt.Sprintf("step %d (%s) must return %s, it failed: %s", st, kind, want, o.ErrLine()))
			}
			if got := OutStr(o); got != want {
				return viol("wrong-value", fmt.Sprintf("step %d (%s) must return %s, got %s", st, kind, want, got))
			}
		}
		if d := sut.DepthsOf(env); !atRest(d) || d.Data != 0 {
			return viol("not-at-rest:"+restKind(d), fmt.Sprintf("after step %d (%s) the VM is not at rest: %v", st, kind, d))
		}
		if st%4 == 3 || st == steps-1 {
			// read every global back, and make sure empty input gives nil
			for _, v := range m.order {
				b := call(func() (zygo.Sexp, error) { return env.EvalString(v + "\n") })
				res.Evals++
				if got := OutStr(b); got != fmt.Sprint(m.vars[v]) {
					return viol("global-lost-or-changed", fmt.Sprintf("after step %d, %s must be %d, got %s", st, v, m.vars[v], got))
				}
			}
			if e := call(func() (zygo.Sexp, error) { return env.EvalString("\n") }); OutStr(e) != "nil" {
				return viol("empty-input-returns-stale-value", fmt.Sprintf("after step %d, empty input returned %s", st, OutStr(e)))
			}
		}
	}
	res.Input = "host-API sequence: " + strings.Join(hist, " ; ")
	res.Hash = core.HashOf(res.Input)
	return true
}
