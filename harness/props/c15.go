package props

import (
	"fmt"
	"sort"
	"strconv"
	"strings"

	"zyverif/core"
	"zyverif/sut"
)

// C15 — macro templates expand by exact substitution (DESIGN §4.C15).

type c15T struct {
	k  string // sym int str list arr hash unq unqx unql splice splicex
	s  string
	ch []*c15T
}

// bindings: source text and their value in sut.Show form / element lists
var c15Setup = `(def x 7) (def y "s") (def l (quote (1 2))) (def e (quote ())) (def m (quote (q (r) [5]))) (def ar [3 4]) (def one (quote (9)))` + "\n"
var c15Val = map[string]string{"x": "7", "y": `"s"`, "l": "(1 2)", "e": "nil", "m": "(sym:q (sym:r) [5])", "ar": "[3 4]", "one": "(9)"}
var c15Elems = map[string][]string{"l": {"1", "2"}, "e": {}, "m": {"sym:q", "(sym:r)", "[5]"}, "one": {"9"}}

func c15Gen(r *core.Rng, d int, inSeq bool) *c15T {
	n := 10
	if d <= 0 {
		n = 6
	}
	switch r.N(n) {
	case 0:
		return &c15T{k: "sym", s: []string{"a", "b", "foo"}[r.N(3)]}
	case 1:
		return &c15T{k: "int", s: strconv.Itoa(r.N(9))}
	case 2:
		return &c15T{k: "unq", s: []string{"x", "y", "l", "ar", "m"}[r.N(5)]}
	case 3:
		if inSeq {
			return &c15T{k: "splice", s: []string{"l", "e", "m", "one"}[r.N(4)]}
		}
		return &c15T{k: "str", s: `"t"`}
	case 4:
		if inSeq && r.N(2) == 0 {
			return &c15T{k: "splicex"} // ~@(list x x)
		}
		return &c15T{k: "unqx"} // ~(+ x 1)
	case 5:
		return &c15T{k: "unql", s: []string{"x", "y"}[r.N(2)]} // (unquote x), the long spelling
	case 6, 7:
		t := &c15T{k: "list"}
		for i, m := 0, r.N(5); i < m; i++ {
			t.ch = append(t.ch, c15Gen(r, d-1, true))
		}
		return t
	case 8:
		t := &c15T{k: "hash"} // {k1: v1 k2: v2}: a template whose values may be unquoted
		for i, m := 0, 1+r.N(2); i < m; i++ {
			v := c15Gen(r, d-1, false)
			t.ch = append(t.ch, &c15T{k: "sym", s: fmt.Sprintf("k%d", i)}, v)
		}
		return t
	default:
		t := &c15T{k: "arr"}
		for i, m := 0, r.N(5); i < m; i++ {
			t.ch = append(t.ch, c15Gen(r, d-1, true))
		}
		return t
	}
}

func c15Render(t *c15T) string {
	switch t.k {
	case "sym", "int", "str":
		return t.s
	case "unq":
		return "~" + t.s
	case "unql":
		return "(unquote " + t.s + ")"
	case "splice":
		return "~@" + t.s
	case "unqx":
		return "~(+ x 1)"
	case "splicex":
		return "~@(list x x)"
	case "hash":
		var parts []string
		for i := 0; i < len(t.ch); i += 2 {
			parts = append(parts, t.ch[i].s+": "+c15Render(t.ch[i+1]))
		}
		return "{" + strings.Join(parts, " ") + "}"
	}
	var parts []string
	for _, c := range t.ch {
		parts = append(parts, c15Render(c))
	}
	if t.k == "list" {
		return "(" + strings.Join(parts, " ") + ")"
	}
	return "[" + strings.Join(parts, " ") + "]"
}

// independent substitution, in sut.Show form; returns the elements this node
// contributes to its parent sequence
func c15Subst(t *c15T) []string {
	switch t.k {
	case "sym":
		return []string{"sym:" + t.s}
	case "int", "str":
		return []string{t.s}
	case "unq", "unql":
		return []string{c15Val[t.s]}
	case "unqx":
		return []string{"8"}
	case "splice":
		return c15Elems[t.s]
	case "splicex":
		return []string{"7", "7"}
	case "hash":
		parts := []string{"sym:hash"}
		for i := 0; i < len(t.ch); i += 2 {
			parts = append(parts, "sym:"+t.ch[i].s)
			parts = append(parts, c15Subst(t.ch[i+1])...)
		}
		return []string{"(" + strings.Join(parts, " ") + ")"}
	}
	var parts []string
	for _, c := range t.ch {
		parts = append(parts, c15Subst(c)...)
	}
	if t.k == "list" {
		if len(parts) == 0 {
			return []string{"nil"}
		}
		return []string{"(" + strings.Join(parts, " ") + ")"}
	}
	return []string{"[" + strings.Join(parts, " ") + "]"}
}

func c15Count(t *c15T, k string) int {
	n := 0
	if t.k == k {
		n++
	}
	for _, c := range t.ch {
		n += c15Count(c, k)
	}
	return n
}

// ---- macros: code templates with holes ----

type c15Macro struct {
	params string // parameter vector
	tmpl   string // template using ~p ~q ~@r
	expand func(args []string) string
	min    int
}

var c15Macros = []c15Macro{
	{"[p q]", "(+ ~p (* 2 ~q))", func(a []string) string { return "(+ " + a[0] + " (* 2 " + a[1] + "))" }, 2},
	{"[p & r]", "(begin (tr 90 ~p) ~@r)", func(a []string) string { return "(begin (tr 90 " + a[0] + ") " + strings.Join(a[1:], " ") + ")" }, 2},
	{"[p & r]", "(let [zz ~p] (+ zz ~@r))", func(a []string) string { return "(let [zz " + a[0] + "] (+ zz " + strings.Join(a[1:], " ") + "))" }, 2},
	{"[p & r]", "[~p ~@r ~p]", func(a []string) string { return "[" + a[0] + " " + strings.Join(a[1:], " ") + " " + a[0] + "]" }, 1},
	{"[p q & r]", "(cond ~p ~q (+ 0 ~@r))", func(a []string) string {
		return "(cond " + a[0] + " " + a[1] + " (+ 0 " + strings.Join(a[2:], " ") + "))"
	}, 3},
	{"[p]", "(newScope (def loc ~p) (* loc loc))", func(a []string) string { return "(newScope (def loc " + a[0] + ") (* loc loc))" }, 1},
	{"[p q]", "(for [(def i 0) (< i ~p) (def i (+ i 1))] (set acc (+ acc ~q)))", func(a []string) string {
		return "(for [(def i 0) (< i " + a[0] + ") (def i (+ i 1))] (set acc (+ acc " + a[1] + ")))"
	}, 2},
	{"[& r]", "(list ~@r)", func(a []string) string { return "(list " + strings.Join(a, " ") + ")" }, 0},
	{"[p]", "(+ w ~p)", func(a []string) string { return "(+ w " + a[0] + ")" }, 1}, // non-hygienic: w is the caller's
	{"[p & r]", "(and ~p ~@r)", func(a []string) string { return "(and " + a[0] + " " + strings.Join(a[1:], " ") + ")" }, 2},
	// expansions that jump: they only compile inside a loop (sites 3 and 6)
	{"[p]", "(cond ~p (break) nil)", func(a []string) string { return "(cond " + a[0] + " (break) nil)" }, 1},
	{"[p]", "(cond ~p (continue) nil)", func(a []string) string { return "(cond " + a[0] + " (continue) nil)" }, 1},
	{"[p q]", "(let [jj ~q] (and ~p (break)))", func(a []string) string { return "(let [jj " + a[1] + "] (and " + a[0] + " (break)))" }, 2},
}

func init() {
	core.Register(&core.Prop{
		ID:    "C15",
		Level: "exploration",
		Rule: "(1) random syntax-quote templates: nests (depth<=4) of lists, arrays and hash literals with ~x, ~(expr), (unquote x), ~@xs, ~@(expr) at every position (first, last, adjacent splices, empty and one-element splices, splices into arrays), bindings to scalars, strings, lists, nested lists and arrays; the value of ^template is compared structurally with an independent substitution function over the same AST. " +
			"(2) macros: thirteen code templates (fixed and & rest parameters, splices in call, begin, let, cond, array, list, for, and forms, and expansions that break / continue out of the caller's loop) called with effectful arguments at top level, inside functions, loops, lets, below let+newScope inside a loop (with the names read again afterwards) and inside another macro's template; value and effect trace must equal those of the hand-written expansion evaluated in a twin interpreter in the same scope (non-hygienic by design), and (macexpand …) must print the model's expansion. " +
			"(4) fourteen templates / macros with fixed expectations (among them dot paths as macro arguments) (recursive functions returning templates whose unquote or splice holds the self call, argument effects duplicated and reordered as the expansion says, nested macros compiled once and called twice, adjacent and empty splices, a defining macro); macros written in Go (AddMacro) that evaluate at expansion time, look names up and reorder arguments, used at top level, in let initializers, operands, function bodies and loops; 1500 failing expansions followed by ordinary macro use in the same and in a fresh interpreter. (3) expanding (macexpand and compile-time expansion) must leave the caller's stack depths, its set of global names and the printed values of all its globals unchanged. non-trivial = distinct template with >=1 splice and >=1 nested container, or a macro call site below a function/loop/let",
		Assumptions: []string{
			"a hash literal inside a template denotes the list (hash k v …) as on the unchanged tree; the long spelling (unquote-splicing …) is not generated (it is lexed as three symbols)",
		},
		NCases:  func(c *core.Ctx) int { return thorN(c, 3500, 60000) + c15ExtraCases },
		MustSee: []string{"templates", "splices", "empty_splices", "macro_calls", "macexpand_checks", "caller_state_checks", "fixed_templates", "go_macro_steps", "failing_expansions"},
		Run:     c15Run,
	})
}

func c15Run(c *core.Ctx, i int) *core.Result {
	if base := thorN(c, 3500, 60000); i >= base {
		return c15Extra(c, i-base)
	}
	if i%3 == 2 {
		return c15MacroCase(c, i)
	}
	r := core.NewRng(c.Seed, "C15", i, 0)
	res := &core.Result{}
	var t *c15T
	for {
		t = c15Gen(r, 2+i%3, false)
		if t.k != "splice" && t.k != "splicex" {
			break
		}
	}
	src := "^" + c15Render(t)
	if t.k == "unq" || t.k == "unqx" || t.k == "unql" {
		src = "^(" + c15Render(t) + ")"
		t = &c15T{k: "list", ch: []*c15T{t}}
	}
	res.Input = src
	res.Hash = core.HashOf(src)
	want := c15Subst(t)[0]
	nsp := c15Count(t, "splice") + c15Count(t, "splicex")
	res.Nontrivial = nsp > 0 && c15Count(t, "list")+c15Count(t, "arr")+c15Count(t, "hash") >= 2
	res.Ev("templates", 1)
	res.Ev("splices", int64(nsp))
	if strings.Contains(src, "~@e") {
		res.Ev("empty_splices", 1)
	}
	s := NewSutRun(true)
	s.Eval(c15Setup, 0)
	before := c15State(s)
	o := s.Eval(src+"\n", 0)
	res.Evals++
	if o.Panic != "" {
		res.Violate("escaped-panic:"+o.Site, o.Panic, src)
		return res
	}
	got := OutStr(o)
	if got != want {
		cls := "template-value"
		if o.Err != nil {
			cls = "template-error"
		}
		res.Violate(cls, fmt.Sprintf("%s must evaluate to %s, got %s", src, want, got), src)
		return res
	}
	if after := c15State(s); after != before {
		res.Violate("template-evaluation-changes-caller-state", fmt.Sprintf("before: %s\nafter:  %s", before, after), src)
	}
	res.Ev("caller_state_checks", 1)
	return res
}

// c15State: stack depths, global names and printed values of the test globals
func c15State(s *SutRun) string {
	d := sut.DepthsOf(s.Env)
	g, m, _ := s.Env.VerifGlobalNames()
	sort.Strings(g)
	sort.Strings(m)
	vals := ""
	for _, n := range []string{"x", "y", "l", "e", "m", "ar", "one", "acc", "w"} {
		o := s.Eval(n+"\n", 0)
		vals += n + "=" + OutStr(o) + ";"
	}
	return fmt.Sprintf("%v globals=%d:%s macros=%d:%s %s", d, len(g), core.HashOf(strings.Join(g, ",")), len(m), core.HashOf(strings.Join(m, ",")), vals)
}

func c15MacroCase(c *core.Ctx, i int) *core.Result {
	r := core.NewRng(c.Seed, "C15m", i, 0)
	res := &core.Result{}
	mi := r.N(len(c15Macros))
	mc := c15Macros[mi]
	name := fmt.Sprintf("mac%d", mi)
	nargs := mc.min + r.N(3)
	if !strings.Contains(mc.params, "&") {
		nargs = mc.min
	}
	argPool := []string{"(tr 1 3)", "(tr 2 (+ w 1))", "5", "w", "(tr 3 (* 2 2))", "(- 9 4)", "(tr 4 0)", "(tr 5 1)"}
	var args []string
	for k := 0; k < nargs; k++ {
		args = append(args, argPool[r.N(len(argPool))])
	}
	call := "(" + name + " " + strings.Join(args, " ") + ")"
	if nargs == 0 {
		call = "(" + name + ")"
	}
	hand := strings.Join(strings.Fields(mc.expand(args)), " ")
	hand = strings.NewReplacer("( ", "(", " )", ")", "[ ", "[", " ]", "]").Replace(hand)
	site := r.N(7)
	if mi >= 10 && site != 3 && site != 6 { // jumping expansions need a loop around them
		site = 3 + 3*r.N(2)
	}
	wrap := func(body string) string {
		switch site {
		case 1:
			return "(defn usef [w] " + body + ") (usef 4)"
		case 2:
			return "(let [w 6] " + body + ")"
		case 3:
			return "(def out 0) (for [(def k 0) (< k 2) (def k (+ k 1))] (set out " + body + ")) out"
		case 4:
			return "((fn [w] (newScope " + body + ")) 8)"
		case 6: // below let and newScope inside a loop; names read again after the loop
			return "(def out 0) (for [(def k 0) (< k 3) (def k (+ k 1))] (let [w (+ k 10)] (newScope (set out (+ out w)) " + body + " (set out (+ out 100))))) (list out w acc)"
		case 5: // inside another macro's template
			return "(defmac outer [z] ^(list ~z " + body + ")) (outer (tr 7 1))"
		}
		return body
	}
	defm := fmt.Sprintf("(defmac %s %s ^%s)", name, mc.params, mc.tmpl)
	pre := "(def w 2) (def acc 0)\n"
	progA := pre + defm + "\n" + wrap(call) + "\n"
	progB := pre + wrap(hand) + "\n"
	res.Input = progA
	res.Hash = core.HashOf(progA)
	res.Nontrivial = site > 0
	res.Ev("macro_calls", 1)
	a, b := NewSutRun(true), NewSutRun(true)
	oa, ob := a.Eval(progA, 0), b.Eval(progB, 0)
	res.Evals += 2
	if oa.Panic != "" {
		res.Violate("escaped-panic:"+oa.Site, oa.Panic, progA)
		return res
	}
	va, vb := OutStr(oa), OutStr(ob)
	if oa.Err != nil {
		va = "ERR"
	}
	if ob.Err != nil {
		vb = "ERR"
	}
	if va != vb || strings.Join(a.Trace, ",") != strings.Join(b.Trace, ",") {
		res.Violate(fmt.Sprintf("macro-call-differs-from-hand-expansion:site%d", site), fmt.Sprintf("with the macro: %s trace %v\nhand-written %s: %s trace %v", OutStr(oa), a.Trace, strings.TrimSpace(wrap(hand)), OutStr(ob), b.Trace), progA)
		return res
	}
	// macexpand prints the model's expansion and leaves the caller untouched
	s := NewSutRun(true)
	s.Eval(pre+defm+"\n", 0)
	before := c15State(s)
	s.Trace = nil
	o := s.Eval("(str (macexpand "+call+"))\n", 0)
	res.Evals++
	res.Ev("macexpand_checks", 1)
	// the tree returns the pair (quote . expansion); accept that printed form too
	want := strconv.Quote("(quote " + hand + ")")
	want2 := strconv.Quote("(quote \\ " + hand + ")")
	if strings.HasPrefix(hand, "(") {
		want2 = strconv.Quote("(quote " + hand[1:])
	}
	if got := OutStr(o); o.Err != nil || (got != want && got != want2) {
		res.Violate("macexpand-differs-from-substitution", fmt.Sprintf("(macexpand %s) must print %s, got %s", call, want, got), progA)
		return res
	}
	if len(s.Trace) > 0 {
		res.Violate("macexpand-evaluates-arguments", fmt.Sprintf("expanding must not run the arguments, trace %v", s.Trace), progA)
		return res
	}
	if after := c15State(s); after != before {
		res.Violate("macexpand-changes-caller-state", fmt.Sprintf("before: %s\nafter:  %s", before, after), progA)
	}
	res.Ev("caller_state_checks", 1)
	return res
}
