package props

import (
	"fmt"
	"strings"

	"zyverif/core"
	"zyverif/sut"
)

// Scoping programs with hand-computed expectations (lexical scoping as the property states it),
// for shapes the generator does not produce. Steps separated by " | " are separate evaluations
// on one interpreter; ERR stands for any error.
var c03Fixed = []struct{ prog, want string }{
	// every activation has its own locals, also when the activation was reached by a tail self call
	{"(def k 3) (def acc []) (defn f [] (def loc (* k 10)) (set acc (append acc (fn [] loc))) (set k (- k 1)) (cond (<= k 0) acc (f))) (map (fn [g] (g)) (f))", "[30 20 10]"},
	{"(def k 3) (def acc []) (defn f [] (def loc k) (def bump (fn [] (set loc (+ loc 100)) loc)) (set acc (append acc bump)) (set k (- k 1)) (cond (<= k 0) acc (f))) (def fs (f)) (list ((aget fs 0)) ((aget fs 1)) ((aget fs 0)))", "(103 102 203)"},
	{"(defn f [n acc] (def loc (* n 10)) (cond (<= n 0) acc (f (- n 1) (append acc (fn [] (+ loc n)))))) (map (fn [g] (g)) (f 3 []))", "[33 22 11]"},
	// parallel let: initializers see the enclosing bindings, not the ones being made
	{"(def a 10) (let [a 1 b (+ a 1)] (list a b))", "(1 11)"},
	{"(def x 1) (def y 2) (let [x y y x] (list x y))", "(2 1)"},
	{"(def a 10) (defn f [] (let [a 1 b (+ a 1)] (fn [] (list a b)))) ((f))", "(1 11)"},
	{"(def a 10) (letseq [a 1 b (+ a 1)] (list a b))", "(1 2)"},
	// a closure sees names defined later in the block it was created in
	{"(defn mk [] (newScope (def g (fn [] later)) (def later 5) (g))) (mk)", "5"},
	{"(def later 1) (defn mk [] (newScope (def g (fn [] later)) (def later 700) (g))) (list (mk) later)", "(700 1)"},
	{"(defn mk [] (let [] (def inc (fn [] (set cnt (+ cnt 1)) cnt)) (def get (fn [] cnt)) (def cnt 10) (inc) (inc) (get))) (mk)", "12"},
	// captured variables read and written through dot paths, after the activation that made them has returned
	{"(defn mk3 [h] (fn [] (+ h.a 1))) (def c (mk3 (hash a: 1))) (c)", "2"},
	{"(defn mk3 [] (let [h (hash a: 1)] (fn [] (set h.a (+ h.a 1)) (+ h.a 0)))) (def c (mk3)) (def d (mk3)) (list (c) (c) (d))", "(2 3 2)"},
	{"(defn mk3 [h] (fn [n] (fn [] (+ h.a n)))) (def c ((mk3 (hash a: 1)) 5)) (def h (hash a: 100)) (c)", "6"},
	{"(defn callee [] (+ v9.a 1)) (defn caller [] (let [v9 (hash a: 9)] (callee))) (caller)", "ERR"},
	{"(def v9 (hash a: 1)) (defn callee [] (+ v9.a 1)) (defn caller [] (let [v9 (hash a: 9)] (callee))) (caller)", "2"},
	// a parameter named like the function shadows it, also in tail position
	{"(defn walk [walk n] (cond (> n 2) n (walk walk (+ n 1)))) (defn other [w n] (+ 1000 n)) (walk other 0)", "1001"},
	{"(func walk [walk:fn9 n:int64] [r:int64] (cond (> n 2) n (walk walk (+ n 1)))) (walk (fn [w n] (+ 1000 n)) 0)", "ERR"},
	{"(defn f [n] (cond (> n 5) n (and (def f (fn [k] 99)) (f (+ n 10))))) (f 0)", "99"},
	{"(defn f [n] (cond (> n 5) n (begin (def f (fn [k] 99)) false) 1 (f (+ n 10)))) (f 0)", "99"},
	// a callee never sees its caller's locals
	{"(defn callee [] v9) (defn caller [] (let [v9 9] (callee))) (caller)", "ERR"},
	{"(def v9 1) (defn callee [] v9) (defn caller [] (let [v9 9] (callee))) (defn caller2 [v9] (callee)) (list (caller) (caller2 7))", "(1 1)"},
	{"(defn mkc [] (fn [] v9)) (defn caller [] (let [v9 9] ((mkc)))) (caller)", "ERR"},
	{"(def v9 1) (defn callee [] (+ (let [w 2] v9) 0)) (defn caller [v9] (for [(def v9 50) (< v9 51) (def v9 (+ v9 1))] (set out9 (callee)))) (def out9 0) (caller 7) out9", "1"},
	// sibling closures share a mutable local; two activations do not
	{"(defn mk [] (def n 0) (list (fn [] (set n (+ n 1)) n) (fn [] n))) (def a (mk)) (def b (mk)) ((first a)) ((first a)) ((first b)) (list ((second a)) ((second b)))", "(2 1)"},
	// set updates the binding it finds lexically; def binds in the innermost scope
	{"(def x 1) (defn f [] (set x 2) (def x 3) (set x 4) x) (list (f) x)", "(4 2)"},
	{"(def x 1) (defn outer [] (def x 10) (defn inner [] (set x (+ x 1)) x) (inner) (inner)) (list (outer) x)", "(12 1)"},
	{"(defn f [x] (let [x (+ x 1)] (let [x (* x 2)] (newScope (def x (+ x 1)) x)))) (f 1)", "5"},
	// three levels, the outer function called twice
	{"(defn lvl1 [a] (fn [b] (fn [c] (list a b c)))) (def p ((lvl1 1) 2)) (def q ((lvl1 10) 20)) (list (p 3) (q 30) (p 4))", "((1 2 3) (10 20 30) (1 2 4))"},
	{"(defn lvl1 [a] (defn mid [] (defn low [] (set a (+ a 1)) a) (low)) (mid) (mid)) (list (lvl1 1) (lvl1 100))", "(3 102)"},
}

func c03FixedRun(c *core.Ctx, k int) *core.Result {
	f := c03Fixed[k]
	res := &core.Result{Input: f.prog, Hash: core.HashOf(f.prog), Nontrivial: true}
	s := NewSutRun(true)
	var gots []string
	for _, step := range strings.Split(f.prog, " | ") {
		o := s.Eval(step+"\n", 400000)
		res.Evals++
		if o.Panic != "" {
			res.Violate("escaped-panic:"+o.Site, o.Panic, f.prog)
			return res
		}
		if o.Err != nil || o.Budget {
			gots = append(gots, "ERR")
		} else {
			gots = append(gots, sut.Show(o.Val))
		}
	}
	res.Ev("fixed_programs", 1)
	if got := strings.Join(gots, "|"); got != f.want {
		res.Violate("fixed-program-expectation", fmt.Sprintf("must give %s; got %s", f.want, got), f.prog)
	}
	return res
}
