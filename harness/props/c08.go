package props

import (
	"crypto/sha1"
	"fmt"
	"os"
	"os/exec"
	"path/filepath"
	"sort"
	"strings"
	"sync"
	"syscall"
	"unsafe"

	"github.com/glycerine/zygomys/v9/zygo"
	"zyverif/core"
	"zyverif/sut"
)

// C08 — a sandboxed interpreter cannot reach the outside world (DESIGN §4.C08).

var c08Special = []string{"and", "or", "cond", "quote", "def", "mdef", "fn", "defn", "begin", "let", "letseq", "assert", "defmac", "macexpand", "syntaxQuote", "include", "for", "set", "break", "continue", "newScope", "package", "return", "_ls",
	// names of outside-world primitives that must NOT be reachable (probed even if unbound)
	"source", "req", "import", "sys", "system", "slurpf", "writef", "owritef", "save", "bload", "bsave", "greenpack", "getenv", "setenv", "exit", "readf", "chdir", "fileExists", "dirExists", "nsplit", "stop", "togo", "dump", "rmsym", "flatten", "sh", "cd", "pwd", "ls", "rm", "open", "exec", "glob", "env", "environ", "args", "hostname"}

var (
	c08once  sync.Once
	c08names [2][]string // per configuration: bare sandbox, sandbox + StandardSetup
)

func c08Mk(cfg int) *zygo.Zlisp {
	// an ordinary, unsandboxed interpreter has been set up (and used) earlier in the same process:
	// nothing it installed may be visible from a sandbox created afterwards
	full := zygo.NewZlisp()
	full.StandardSetup()
	full.EvalString("(def leakprobe9 1) (defn leakfn9 [] 1)\n")
	e := zygo.NewZlispSandbox()
	if cfg == 1 {
		e.StandardSetup()
	}
	return e
}

func c08Names() {
	c08once.Do(func() {
		for cfg := 0; cfg < 2; cfg++ {
			env := c08Mk(cfg)
			g, m, b := env.VerifGlobalNames()
			set := map[string]bool{}
			for _, l := range [][]string{g, m, b, c08Special, zygo.ReservedWords} {
				for _, n := range l {
					if n != "" {
						set[n] = true
					}
				}
			}
			for n := range set {
				c08names[cfg] = append(c08names[cfg], n)
			}
			sort.Strings(c08names[cfg])
		}
	})
}

// canary world: a directory with a secret script, a secret text, a victim file
// and a marker path; a secret environment variable and a sentinel variable.
type c08world struct {
	dir, secretZy, secretTxt, victim, marker string
	nonce, envNonce                          string
	ifd, wd                                  int
}

func c08NewWorld(work string, i int) *c08world {
	w := &c08world{dir: filepath.Join(work, fmt.Sprintf("canary%d", i))}
	os.MkdirAll(w.dir, 0755)
	w.nonce = fmt.Sprintf("NONCE%dq7f3a9c", i)
	w.envNonce = fmt.Sprintf("ENVNONCE%dx55aa", i)
	w.secretZy = filepath.Join(w.dir, "secret.zy")
	w.secretTxt = filepath.Join(w.dir, "secret.txt")
	w.victim = filepath.Join(w.dir, "victim.txt")
	w.marker = filepath.Join(w.dir, "marker")
	os.WriteFile(w.secretZy, []byte("(def Leaked \""+w.nonce+"\")\n"), 0644)
	os.WriteFile(w.secretTxt, []byte(w.nonce+" plain text, not a script\n"), 0644)
	os.WriteFile(w.victim, []byte("victim"), 0644)
	os.Setenv("VSECRET", w.envNonce)
	os.Unsetenv("VSENT")
	w.ifd, _ = syscall.InotifyInit1(syscall.IN_NONBLOCK | syscall.IN_CLOEXEC)
	if w.ifd >= 0 {
		w.wd, _ = syscall.InotifyAddWatch(w.ifd, w.dir, syscall.IN_OPEN|syscall.IN_ACCESS|syscall.IN_MODIFY|syscall.IN_CREATE|syscall.IN_DELETE|syscall.IN_MOVED_FROM|syscall.IN_MOVED_TO|syscall.IN_ATTRIB)
	}
	return w
}

func (w *c08world) close() {
	if w.ifd >= 0 {
		syscall.Close(w.ifd)
	}
	os.RemoveAll(w.dir)
}

// drain returns the inotify events since the last drain.
func (w *c08world) drain() []string {
	var out []string
	if w.ifd < 0 {
		return nil
	}
	buf := make([]byte, 8192)
	for {
		n, err := syscall.Read(w.ifd, buf)
		if n <= 0 || err != nil {
			break
		}
		off := 0
		for off+syscall.SizeofInotifyEvent <= n {
			ev := (*syscall.InotifyEvent)(unsafe.Pointer(&buf[off]))
			name := ""
			if ev.Len > 0 {
				name = strings.TrimRight(string(buf[off+syscall.SizeofInotifyEvent:off+syscall.SizeofInotifyEvent+int(ev.Len)]), "\x00")
			}
			kind := ""
			for bit, s := range map[uint32]string{syscall.IN_OPEN: "open", syscall.IN_ACCESS: "read", syscall.IN_MODIFY: "write", syscall.IN_CREATE: "create", syscall.IN_DELETE: "delete", syscall.IN_MOVED_FROM: "move", syscall.IN_MOVED_TO: "move", syscall.IN_ATTRIB: "attrib"} {
				if ev.Mask&bit != 0 {
					kind += s + "+"
				}
			}
			if ev.Mask&syscall.IN_ISDIR == 0 || ev.Mask&(syscall.IN_CREATE|syscall.IN_DELETE) != 0 {
				out = append(out, strings.TrimSuffix(kind, "+")+":"+name)
			}
			off += syscall.SizeofInotifyEvent + int(ev.Len)
		}
	}
	return out
}

// effects lists what changed in the outside world since the last reset.
func (w *c08world) effects() []string {
	var out []string
	if b, err := os.ReadFile(w.victim); err != nil || string(b) != "victim" {
		out = append(out, "victim-file-changed")
	}
	if _, err := os.Stat(w.marker); err == nil {
		out = append(out, "marker-created(process-started-or-file-written)")
	}
	ents, _ := os.ReadDir(w.dir)
	for _, e := range ents {
		switch e.Name() {
		case "secret.zy", "secret.txt", "victim.txt", "marker":
		default:
			out = append(out, "new-path:"+e.Name())
		}
	}
	if os.Getenv("VSENT") != "" {
		out = append(out, "environment-variable-set")
	}
	if os.Getenv("VSECRET") != w.envNonce {
		out = append(out, "environment-variable-changed")
	}
	return out
}

func (w *c08world) reset() {
	os.WriteFile(w.victim, []byte("victim"), 0644)
	os.Remove(w.marker)
	ents, _ := os.ReadDir(w.dir)
	for _, e := range ents {
		switch e.Name() {
		case "secret.zy", "secret.txt", "victim.txt":
		default:
			os.RemoveAll(filepath.Join(w.dir, e.Name()))
		}
	}
	os.Unsetenv("VSENT")
	os.Setenv("VSECRET", w.envNonce)
	w.drain()
}

func (w *c08world) argsets() [][]string {
	q := func(s string) string { return fmt.Sprintf("%q", s) }
	touch := "touch " + w.marker
	return [][]string{
		{},
		{q(w.secretZy)},
		{q(w.secretTxt)},
		{q(w.victim)},
		{q("x"), q(w.victim)},
		{q(w.victim), q("x")},
		{q(w.marker), q("x")},
		{q("x"), q(w.marker)},
		{q(touch)},
		{"touch", w.marker},
		{q("touch"), q(w.marker)},
		{q("VSECRET")},
		{"VSECRET"},
		{q("$VSECRET")},
		{q("${VSECRET}")},
		{q("VSENT"), q("1")},
		{"0"},
		{"[" + q(w.secretZy) + "]"},
		{"(list " + q(w.secretZy) + ")"},
		{"(hash a: 1)", q(w.marker)},
		{"(hash a: 1)", q(w.victim)},
		{"alias", q(w.secretZy)},
		{"(quote " + strings.ReplaceAll(filepath.Base(w.secretZy), ".zy", "") + ")"},
		{q(w.dir)},
	}
}

func init() {
	core.Register(&core.Prop{
		ID:    "C08",
		Level: "exploration",
		Rule: "configurations {NewZlispSandbox() bare; NewZlispSandbox()+StandardSetup(); cmd/zygo -sandbox on a script, alone and combined with -demo / -quiet / -countcalls / -no-liner in either order (thorough: under strace)}, each created after an ordinary unsandboxed interpreter was set up and used in the same process. For EVERY name the sandboxed interpreter knows (global bindings, macros, builtins read through the hook accessor, every reserved word, every special form of the compiler) plus 40 names of outside-world primitives that must not be reachable: the name is invoked with 24 argument shapes built from canary paths (a secret script defining a global that holds a random nonce, a secret text, a writable victim file, a marker path), shell command strings and words, environment variable names and $-references, lists/arrays/hashes of those; then through aliases (def x NAME), aliases bearing the name of an outside-world primitive called directly and through a variable that holds that name, apply, map, eval of a quoted call, str2sym, a macro expanding to the call, a call made while a macro body runs (directly and through eval; macro bodies run in a duplicated interpreter), expectError / assert / lazy-argument / loop / sort-callback / package-body wrappers, infix blocks and dot-symbol calls. " +
			"Monitors after each action: nonce or secret environment value visible in value / error text / a newly defined global; victim modified, marker or any new path created (content hash, directory listing); sentinel environment variable set; an inotify watch on the canary directory (any open/read/write/create/delete by this process, even when no content surfaces); child death (exit). Thorough: every script also runs in cmd/zygo -sandbox under strace, where any execve, any openat under the canary root, any socket is a violation. non-trivial = every distinct (configuration, name) pair",
		Assumptions: []string{
			"outside world = files, processes, environment, exit, sockets; CPU and memory consumption are not part of the statement",
			"printing to stdout/stderr of the host process is not an outside-world effect",
		},
		NCases: func(c *core.Ctx) int {
			c08Names()
			return len(c08names[0]) + len(c08names[1])
		},
		Chunk:        12,
		CaseTimeoutS: 120,
		NeedsZygoBin: true,
		MustSee:      []string{"calls", "inotify_drains", "names", "combination_calls", "cli_runs"},
		Run:          c08Run,
		Describe: func(c *core.Ctx, i int) string {
			c08Names()
			cfg, name := c08Case(i)
			return fmt.Sprintf("configuration %d, name %s (the child process ended: exit reached from a sandbox?)", cfg, name)
		},
	})
}

func c08Case(i int) (int, string) {
	if i < len(c08names[0]) {
		return 0, c08names[0][i]
	}
	return 1, c08names[1][i-len(c08names[0])]
}

func c08Run(c *core.Ctx, i int) *core.Result {
	c08Names()
	cfg, name := c08Case(i)
	res := &core.Result{Nontrivial: true, Input: fmt.Sprintf("config=%d name=%s", cfg, name)}
	res.Hash = core.HashOf(res.Input)
	res.Ev("names", 1)
	w := c08NewWorld(c.Work, i)
	defer w.close()
	env := c08Mk(cfg)
	cfgName := []string{"bare-sandbox", "sandbox+StandardSetup"}[cfg]
	judge := func(src string, o *sut.Outcome, kind string) {
		out := ""
		if o.Err != nil {
			out = o.Err.Error()
		} else if o.Val != nil {
			sut.Protect(func() { out = o.Val.SexpString(nil) })
		}
		if o.Panic != "" {
			out += " " + o.Panic
		}
		var seen []string
		evs := w.drain() // first: what the script action itself touched (the monitor's own reads come later)
		res.Ev("inotify_drains", 1)
		// did a file get evaluated? (its definition is visible)
		lo := sut.Eval(env, "Leaked\n", 10000)
		if lo.Err == nil && lo.Val != nil {
			if s, ok := lo.Val.(*zygo.SexpStr); ok && strings.Contains(s.S, w.nonce) {
				seen = append(seen, "secret-script-evaluated")
				env = c08Mk(cfg)
			}
		}
		if strings.Contains(out, w.nonce) {
			seen = append(seen, "secret-file-content-visible")
		}
		if strings.Contains(out, w.envNonce) {
			seen = append(seen, "secret-environment-value-visible")
		}
		seen = append(seen, w.effects()...)
		w.drain() // discard the events caused by the effect check itself
		if len(evs) > 0 && len(seen) == 0 {
			seen = append(seen, "canary-path-touched("+strings.Join(evs, ",")+")")
		}
		if len(seen) > 0 {
			key := fmt.Sprintf("outside-world-reached:%s:%s:%s", cfgName, name, strings.SplitN(seen[0], "(", 2)[0])
			res.Violate(key, fmt.Sprintf("%s in a %s: %v (inotify: %v); result: %s", strings.TrimSpace(src), cfgName, seen, evs, core.Trunc(out, 300)), src)
			w.reset()
		}
	}
	w.reset()
	for _, as := range w.argsets() {
		src := "(" + name + " " + strings.Join(as, " ") + ")\n"
		o := sut.Eval(env, src, 200000)
		res.Evals++
		res.Ev("calls", 1)
		if o.Panic != "" {
			env = c08Mk(cfg)
		}
		judge(src, o, "direct")
	}
	// unevaluated / combined routes
	q := func(s string) string { return fmt.Sprintf("%q", s) }
	combos := []string{
		"(def xal " + name + ") (xal " + q(w.secretZy) + ")",
		"(def xal " + name + ") (xal " + q("touch "+w.marker) + ")",
		"(apply " + name + " [" + q(w.secretZy) + "])",
		"(apply " + name + " [" + q(w.victim) + " " + q("x") + "])",
		"(map " + name + " [" + q(w.secretZy) + " " + q(w.victim) + "])",
		"(eval (quote (" + name + " " + q(w.secretZy) + ")))",
		"(eval (list (str2sym " + q(name) + ") " + q(w.secretZy) + "))",
		"((str2sym " + q(name) + ") " + q(w.secretZy) + ")",
		"(defmac xm [] ^(" + name + " " + q(w.secretZy) + ")) (xm)",
		"(defmac xm2 [p] ^(" + name + " ~p " + q("x") + ")) (xm2 " + q(w.marker) + ")",
		"{" + name + "(" + q(w.secretZy) + ")}",
		"{(" + name + " " + q(w.secretZy) + ")}",
		"(defn xf [p] (" + name + " p)) (xf " + q(w.secretZy) + ")",
		"(let [p " + q(w.victim) + "] (" + name + " p " + q("x") + "))",
		"(" + name + " (quote VSECRET))",
		"(hget (" + name + ") VSECRET:)",
		// an alias that bears the name of an outside-world primitive, called directly and through a variable holding that name
		"(def system " + name + ") (system " + q("touch "+w.marker) + ")",
		"(def system " + name + ") (def xq (quote system)) (xq " + q("touch "+w.marker) + ")",
		"(def sys " + name + ") (def xq (quote sys)) (xq " + q("touch "+w.marker) + ") (xq " + q(w.secretZy) + ")",
		"(def slurpf " + name + ") (def xq (quote slurpf)) (xq " + q(w.secretZy) + ")",
		"(def include " + name + ") ((quote include) " + q(w.secretZy) + ")",
		// the call made while a macro BODY runs (macro bodies run in a duplicated interpreter), directly and through eval
		"(defmac xm3 [] (" + name + " " + q(w.secretZy) + ")) (xm3)",
		"(defmac xm4 [] (eval (quote (" + name + " " + q(w.secretZy) + ")))) (xm4)",
		"(defmac xm5 [p] (begin (" + name + " p " + q("x") + ") 1)) (xm5 " + q(w.marker) + ")",
		"(macexpand (xm4))",
		// wrappers that evaluate their argument themselves, possibly in another interpreter
		"(expectError \"\" (" + name + " " + q(w.secretZy) + "))",
		"(expectError \"\" (" + name + " " + q(w.marker) + " " + q("x") + "))",
		"(assert (" + name + " " + q(w.secretZy) + "))",
		"(defn xl [#p] (force #p)) (xl (" + name + " " + q(w.secretZy) + "))",
		"(for [(def xi 0) (< xi 1) (def xi (+ xi 1))] (" + name + " " + q(w.secretZy) + "))",
		"(range xk xv [" + q(w.secretZy) + "] (" + name + " xv))",
		"(let [xg (fn [] (" + name + " " + q(w.secretZy) + "))] (xg))",
		"(sort (fn [xa xb] (begin (" + name + " " + q(w.secretZy) + ") true)) [2 1])",
		"(package \"xpk\" (def R (" + name + " " + q(w.secretZy) + ")))",
	}
	for _, cb := range combos {
		src := cb + "\n"
		o := sut.Eval(env, src, 200000)
		res.Evals++
		res.Ev("combination_calls", 1)
		if o.Panic != "" {
			env = c08Mk(cfg)
		}
		judge(src, o, "combo")
	}
	// the command-line tool under -sandbox (a sample in quick, every name in thorough)
	if cfg == 1 && (c.Thor || i%6 == 0) {
		c08CLI(c, res, w, name)
	}
	return res
}

func c08CLI(c *core.Ctx, res *core.Result, w *c08world, name string) {
	zygoBin := filepath.Join(c.BinDir, "zygo")
	if _, err := os.Stat(zygoBin); err != nil {
		return
	}
	q := func(s string) string { return fmt.Sprintf("%q", s) }
	script := filepath.Join(c.Work, fmt.Sprintf("c08-%x.zy", sha1.Sum([]byte(name+w.dir)))[:40])
	body := ""
	for _, as := range [][]string{{q(w.secretZy)}, {q("touch " + w.marker)}, {"touch", w.marker}, {q(w.marker), q("x")}, {q("x"), q(w.marker)}, {q("VSECRET")}} {
		body += "(expectError \"\" (" + name + " " + strings.Join(as, " ") + "))\n"
	}
	// expectError with an empty pattern fails the script; instead make each call non-fatal
	body = ""
	for k, as := range [][]string{{q(w.secretZy)}, {q("touch " + w.marker)}, {"touch", w.marker}, {q(w.marker), q("x")}, {q("x"), q(w.marker)}, {q("VSECRET")}} {
		body = "(" + name + " " + strings.Join(as, " ") + ")\n"
		sp := fmt.Sprintf("%s.%d", script, k)
		os.WriteFile(sp, []byte(body+"(println Leaked)\n"), 0644)
		w.reset()
		// -sandbox alone and combined with the other flags of the tool, in either order
		flagSets := [][]string{{"-sandbox", "-exitonfail", "-quiet"}, {"-sandbox", "-demo", "-exitonfail", "-quiet"}, {"-demo", "-quiet", "-exitonfail", "-sandbox"}, {"-quiet", "-sandbox", "-countcalls", "-exitonfail"}, {"-no-liner", "-sandbox", "-exitonfail", "-quiet"}}
		args := append(append([]string{}, flagSets[(k+len(name))%len(flagSets)]...), sp)
		var cmd *exec.Cmd
		traceFile := sp + ".strace"
		if c.Thor {
			cmd = exec.Command("strace", append([]string{"-f", "-o", traceFile, "-e", "trace=execve,openat,unlinkat,renameat,renameat2,mkdirat,connect,socket,creat,open", zygoBin}, args...)...)
		} else {
			cmd = exec.Command(zygoBin, args...)
		}
		core.DieWithParent(cmd)
		cmd.Dir = c.Work
		out, _ := cmd.CombinedOutput()
		res.Evals++
		res.Ev("cli_runs", 1)
		var seen []string
		if strings.Contains(string(out), w.nonce) {
			seen = append(seen, "secret-file-content-visible")
		}
		if strings.Contains(string(out), w.envNonce) {
			seen = append(seen, "secret-environment-value-visible")
		}
		evs := w.drain()
		seen = append(seen, w.effects()...)
		w.drain()
		if len(evs) > 0 && len(seen) == 0 {
			seen = append(seen, "canary-path-touched("+strings.Join(evs, ",")+")")
		}
		if c.Thor {
			if tb, err := os.ReadFile(traceFile); err == nil {
				res.Ev("strace_runs", 1)
				first := true
				for _, line := range strings.Split(string(tb), "\n") {
					switch {
					case strings.Contains(line, "execve("):
						if first {
							first = false // the zygo binary itself
							continue
						}
						seen = append(seen, "syscall:execve")
					case strings.Contains(line, w.dir) && !strings.Contains(line, sp):
						seen = append(seen, "syscall:path-under-canary-root")
					case strings.Contains(line, "socket(") || strings.Contains(line, "connect("):
						if !strings.Contains(line, "AF_UNIX") {
							seen = append(seen, "syscall:socket")
						}
					}
				}
			}
			os.Remove(traceFile)
		}
		os.Remove(sp)
		if len(seen) > 0 {
			res.Violate(fmt.Sprintf("outside-world-reached:zygo-sandbox-cli:%s:%s", name, strings.SplitN(seen[0], "(", 2)[0]), fmt.Sprintf("zygo -sandbox running %s: %v; output: %s", strings.TrimSpace(body), seen, core.Trunc(string(out), 300)), body)
			return
		}
	}
}
