package props

import (
	"encoding/json"
	"fmt"
	"os"
	"os/exec"
	"path/filepath"
	"regexp"
	"sort"
	"strings"
	"sync"

	"zyverif/core"
	"zyverif/lang"
)

// C20 — evaluation is deterministic (DESIGN §4.C20).

var c20Fixed = []string{
	// map-walking conversions and printing
	`(def h (hash zeta: 1 alpha: 2 mid: (hash q: 1 b: 2 a: 3))) (str h)`,
	`(def h (hash zeta: 1 alpha: 2 mid: [1 2 (hash z: 1 y: 2)])) (raw2str (json h))`,
	`(def h (hash zeta: 1 alpha: 2 mid: "x")) (msgpack h)`,
	`(unjson (raw "{\"id\":1,\"ID\":2,\"name\":3,\"Name\":4,\"zip\":5,\"a\":{\"y\":1,\"x\":2,\"w\":3}}"))`,
	`(keys (unjson (raw "{\"q\":1,\"b\":2,\"m\":3,\"a\":4,\"z\":5}")))`,
	`(unjson (raw "{\"ab\":1,\"AB\":2,\"Ab\":3,\"aB\":4,\"cd\":5,\"CD\":6,\"Cd\":7,\"cD\":8,\"e\":9,\"E\":10,\"f\":11,\"F\":12}"))`,
	`(def m (unjson (raw "{\"k\":{\"xy\":1,\"XY\":2,\"Xy\":3,\"xY\":4,\"zz\":5,\"ZZ\":6,\"Zz\":7}}"))) (list (str m) (raw2str (json m)))`,
	`(unmsgpack (msgpack (hash k1: 1 k2: [1 2] k3: (hash a: 1 b: 2))))`,
	`(defmap cowz) (def c (cowz name: "b" legs: 4 tags: ["x" "y"])) (list (str c) (raw2str (json c)) (keys c))`,
	`(def o (c10outer i: 1 s: "x" p: (c10inner name: "q" n: 4) sh: (c10inner n: 2) shs: [(c10inner n: 3)] m: (hash kb: "b" ka: "a" kc: "c") mf: (hash fb: 1.5 fa: 2))) (_method o Echo: o)`,
	`(def o (c10outer corea: 1 midx: 2 ps: [(c10inner n: 1) (c10inner n: 2)])) (list (_method o Describe:) (_method o EchoIn: (c10inner name: "z" n: 9)))`,
	`(togo (c10outer i: 5 strs: ["a" "b"] m: (hash kz: "1" ka: "2" km: "3")))`,
	`(def p (package "pk" (def Zed 1) (def alpha 2) (def Mid (hash b: 1 a: 2)) (defn Fn [] 3))) (str p)`,
	`(defn f [a b] (let [z 1 y 2 x 3] (+ a b z y x))) (str f)`,
	// error texts
	`(undefinedFunctionName 1 2)`,
	`(+ 1 "a")`,
	`(hget (hash a: 1 b: 2 c: 3) zz:)`,
	`(struct Sdet [(field b: int64) (field a: string) (field c: float64)]) (Sdet zz: 1)`,
	`(c10outer nosuch: 1 i: 2)`,
	`(togo (c10outer nosuch: 1))`,
	`(aget [1 2 3] 7)`,
	`(let [a 1] (undefinedInner a))`,
	// generated names
	`(list (gensym) (gensym "g") (gensym))`,
	`(defmac m2 [x] (let [t (gensym)] ^(let [~t ~x] (+ ~t ~t)))) (macexpand (m2 21))`,
	`(str (fn [a] (+ a 1)))`,
	`(def cowz 3) (def zork 4) (def Pt 5) (+ cowz zork Pt)`,
	`(def field 3) (def inner 4) (+ field inner)`,
	`(struct Pt2 [(field x: int64) (field y: int64)]) (def p (Pt2 x: 1 y: 2)) (list (str p) (raw2str (json p)))`,
	`(range k v (hash c: 1 b: 2 a: 3) (println k v))`,
	`(def a [3 1 2]) (map (fn [x] (* x x)) a)`,
	`(sort [3 1 2])`,
	`(symnum (quote brandNewSymbolNeverSeen))`,
	// listings of Go-backed records, and the error text that enumerates them
	`(methodls (c10outer))`,
	`(fieldls (c10outer))`,
	`(list (methodls (c10inner)) (fieldls (c10inner n: 1)))`,
	`(_method (c10outer) NoSuchMethod:)`,
	// macros after whatever other interpreters did with macros
	`(def ct 0) (range k v [1 2 3] (set ct (+ ct v))) (++ ct) (+= ct 4) ct`,
	`(defmac w1 [x] ^(+ 1 ~x)) (defmac w2 [x] ^(w1 (w1 (w1 ~x)))) (defmac w3 [x] ^(w2 (w2 (w2 ~x)))) (w3 (w3 (w3 0)))`,
	`(defmac selfm [x] ^(selfm ~x)) (selfm 1)`,
	`(defmac badm [x] ^(let [q] ~x)) (badm 1)`,
	// copies of records: key order of the copy
	`(struct PtC20a [(field x: int64) (field y: int64) (field z: int64) (field w: int64) (field v: int64)]) (def a (PtC20a x:1 y:2 z:3 w:4 v:5)) (def pa (& a)) (derefSet pa (PtC20a w:40 z:30 v:50 y:20 x:10)) (str [a (keys a)])`,
	`(def src (hash q: 1 b: 2 m: 3 a: 4 z: 5 k: [1 2])) (def cp (hash)) (range k v src (hset cp k v)) (hdel cp m:) (list (str cp) (keys cp) (raw2str (json cp)) (hpair cp 0))`,
	// keys that are absent, probed with keys of another type whose hash value may collide (symbol numbers of builtins are small integers)
	`(def h (hash)) (for [(def i 0) (< i 250) (def i (+ i 1))] (hset h i (* i 10))) (def g (hash first: "a" rest: "b" println: "c" cons: "d")) (def hits []) (for [(def i 0) (< i 250) (def i (+ i 1))] (cond (== (hget g i "none") "none") nil (set hits (append hits i)))) (str [(hget h (quote println) -1) (hget h (quote cons) -1) (hget h (quote hset) -1) (hget h (quote first) -1) hits])`,
	`(def h (hash 1 "one" 2 "two" "1" "s-one" a: "sym-a")) (list (hget h 1 "d") (hget h "1" "d") (hget h (quote a) "d") (hget h "a" "d") (hget h 3 "d") (hget h (quote hget) "d") (hget h 1.0 "d"))`,
	// printing of nested containers, whatever display settings other interpreters chose
	`(def h (hash a: 1 b: [1 2 3] c: (hash d: "x" e: 2.5))) (println h) (println [1 [2 3] (hash k: 1)]) (str [h (keys h)])`,
}

// noise: what other interpreters of the same process did before
// (no type declarations here: those go to the process-global registry, which
// is probed by the dedicated c20Leak case below so that its recorded finding
// does not mask other history-dependence)
var c20Noise = []string{
	`(def cowz 1) (def zork (hash a: 1)) (def x [1 2 3])`,
	`(def p (hash x: 1)) (defn field2 [q] q) (field2 3)`,
	`(def h (hash a: 1)) (json h) (msgpack h) (gensym) (gensym) (gensym "g")`,
	`(defmac nm [x] ^(+ ~x 1)) (nm 2) (defn nf [a] a) (for [(def i 0) (< i 20) (def i (+ i 1))] (gensym))`,
	`(c10outer i: 1 p: (c10inner n: 1)) (_method (c10outer) Echo: (c10outer sh: (c10inner n: 2)))`,
	`(undefinedThing) `,
	`(str2sym "__gensym300") (str2sym "brandNewSymbolNeverSeen")`,
	// failures inside macro expansion, in the compiler, in builtins and deep in the VM
	`(defmac selfn [x] ^(selfn ~x)) (selfn 1)`,
	`(defmac badn [x] ^(let [q] ~x)) (badn 1) (badn 2) (badn 3)`,
	`(defmac deepn [x] ^(begin (let) ~x)) (deepn (deepn (deepn 1)))`,
	`(defn rec [n] (cond (> n 200) (aget [1] 5) (+ 1 (rec (+ n 1))))) (rec 0)`,
	`(aget [1] 5) `,
	`(first 3)`,
	// in-place edits of lists a builtin handed out
	`(def ml (methodls (c10outer))) (aset ml 0 "edited") (def fl (fieldls (c10outer))) (aset fl 0 "edited") (def kl (keys (hash a: 1))) (aset kl 0 (quote edited))`,
	`(def ml (methodls (c10inner))) (aset ml 0 "edited") (def so [3 1 2]) (sort so) (aset so 0 99)`,
	// display and debugging settings chosen by another interpreter
	`(pretty true) (def h (hash a: 1 b: [1 2])) (str h) (println h)`,
	`(pretty true) (pretty false) (pretty true)`,
}

var (
	c20once   sync.Once
	c20corpus []string
	c20ptr    = regexp.MustCompile(`0x[0-9a-fA-F]{6,}|\(0xc[0-9a-f]+\)|goroutine \d+|\+0x[0-9a-f]+`)
)

func c20Corpus(c *core.Ctx) []string {
	c20once.Do(func() {
		files, _ := filepath.Glob(filepath.Join(c.Repo, "tests", "*.zy"))
		sort.Strings(files)
		banned := []string{"now", "random", "timeit", "millis", "(sys", "slurpf", "writef", "owritef", "save", "source", "(req", "import", "readf", "getenv", "exit", "stop", "bsave", "bload", "greenpack", "chan", "go ", "sleep", "include", "date", "dur", "nextBusinessDay", "_closdump", "dump", "snoopy", "hornet", "hellcat", "plane", "weather", "event", "demo", "(prevday", "astm"}
		for _, f := range files {
			b, err := os.ReadFile(f)
			if err != nil || len(b) > 6000 {
				continue
			}
			t := string(b)
			ok := true
			for _, w := range banned {
				if strings.Contains(t, w) {
					ok = false
					break
				}
			}
			if ok {
				c20corpus = append(c20corpus, t)
			}
		}
	})
	return c20corpus
}

func c20Program(c *core.Ctx, i int) string {
	corpus := c20Corpus(c)
	nf, nc := len(c20Fixed), len(corpus)
	switch {
	case i < nf:
		return c20Fixed[i] + "\n"
	case i < nf+nc:
		return corpus[i-nf]
	}
	k := i - nf - nc
	g := &lang.G{R: core.NewRng(c.Seed, "C20", k, 0), C: lang.Cfg{Depth: 4, Pool: []string{"a", "b", "c"}, Data: true, HigherOrder: true, Variadic: true, Recursion: true, Lazy: k%3 == 0, TrOneIn: 3}}
	prog := g.Program()
	t := lang.Plain.Program(prog)
	// make effects visible on stdout and add map-walking observers
	t = strings.ReplaceAll(t, "(tr ", "(trp ")
	return "(defn trp [id x] (println id x) x)\n" + t + "(def hz (hash zz: 1 aa: [1 2] mm: (hash b: 2 a: 1))) (println (str hz) (raw2str (json hz)))\n"
}

type c20obs struct {
	Val, Out string
}

// one run of program P in interpreter number `nth` of this process
func c20RunOnce(c *core.Ctx, prog string, nth int, seed uint64) c20obs {
	c10Register()
	for k := 0; k < nth; k++ {
		s := NewSutRun(true)
		s.Eval(c20Noise[int(seed+uint64(k))%len(c20Noise)]+"\n", 200000)
	}
	// capture stdout
	tmp := filepath.Join(c.Work, fmt.Sprintf("c20-out-%d", os.Getpid()))
	f, err := os.Create(tmp)
	old := os.Stdout
	if err == nil {
		os.Stdout = f
	}
	s := NewSutRun(true)
	o := s.Eval(prog, 2000000)
	if err == nil {
		os.Stdout = old
		f.Close()
	}
	out, _ := os.ReadFile(tmp)
	os.Remove(tmp)
	val := ""
	switch {
	case o.Panic != "":
		val = "PANIC:" + o.Panic
	case o.Budget:
		val = "BUDGET"
	case o.Err != nil:
		val = "ERR:" + o.Err.Error()
	case o.Val != nil:
		val = o.Val.SexpString(nil)
	}
	norm := func(s string) string {
		s = c20ptr.ReplaceAllString(s, "0xPTR")
		// recovered Go stack traces carry file lines of the runtime: keep the first line of each error only
		if k := strings.Index(s, "stack trace:"); k >= 0 {
			s = s[:k]
		}
		return s
	}
	return c20obs{norm(val), norm(string(out))}
}

func init() {
	core.Register(&core.Prop{
		ID:    "C20",
		Level: "exploration",
		Rule: "programs: 31 hand-written programs around the map-walking conversions named by the anchors (hash / record / package / function printing, json and msgpack bytes, unjson of plain JSON objects without key-order entry, records with nested registered Go structs through togo and Go method returns, error texts that list names, generated symbol names, struct declarations, type listing), every tests/*.zy script that uses no file, time, random, channel or demo-struct feature, and generated programs whose effects print to stdout. " +
			"Each program is run N times (quick 8, thorough 20) in this process, as the 1st, 2nd, 3rd, ... interpreter after other interpreters ran unrelated programs (defining values, macros, interning symbols, failing inside macro expansions, the compiler, builtins and deep recursion, editing in place the lists that listing builtins handed out), and in M fresh processes (quick 2, thorough 5; each Go map gets a new iteration seed). Events: printed value, captured stdout, full error text. Oracle: all N+M observations identical after normalising pointer renderings and recovered Go stack traces. non-trivial = every distinct program",
		Assumptions: []string{
			"explicit random/time functions are not used by any program; pointer renderings 0x… and recovered Go stack traces are normalised away",
		},
		NCases: func(c *core.Ctx) int {
			return len(c20Fixed) + len(c20Corpus(c)) + thorN(c, 150, 1500) + 1
		},
		Chunk:        1, // one worker process per program: the type registry is process-global
		CaseTimeoutS: 120,
		MustSee:      []string{"in_process_runs", "fresh_process_runs", "programs"},
		Run:          c20Run,
	})
}

// c20Leak: a type declared by a script in one interpreter must not change what
// a later interpreter of the same process does.
func c20Leak(c *core.Ctx) *core.Result {
	c10Register()
	res := &core.Result{Nontrivial: true}
	decl := "(defmap cowleak) (struct Ptleak [(field x: int64)]) (def x (cowleak a: 1))\n"
	probes := []string{"(def cowleak 3) (+ cowleak 1)\n", "(def Ptleak 5) Ptleak\n", "(symnum (quote brandNewLeakProbeSymbol))\n", "(list (gensym) (gensym))\n"}
	res.Input = "interpreter 1: " + decl + "interpreter 2: " + strings.Join(probes, " | ")
	res.Hash = core.HashOf(res.Input)
	var before []string
	for _, p := range probes {
		s := NewSutRun(true)
		before = append(before, OutStr(s.Eval(p, 0)))
	}
	s1 := NewSutRun(true)
	s1.Eval(decl, 0)
	for k, p := range probes {
		s := NewSutRun(true)
		after := OutStr(s.Eval(p, 0))
		res.Evals++
		if after != before[k] {
			res.Violate("script-declared-types-leak-into-later-interpreters", fmt.Sprintf("%s gives %s in a fresh interpreter, but %s after another interpreter of the process evaluated %s", strings.TrimSpace(p), before[k], after, strings.TrimSpace(decl)), res.Input)
			break
		}
	}
	res.Ev("programs", 1)
	res.Ev("in_process_runs", int64(2*len(probes)))
	return res
}

func c20Run(c *core.Ctx, i int) *core.Result {
	if i == len(c20Fixed)+len(c20Corpus(c))+thorN(c, 150, 1500) {
		return c20Leak(c)
	}
	prog := c20Program(c, i)
	if out := os.Getenv("VERIF_C20_CHILD_OUT"); out != "" {
		// child mode: first interpreter of a fresh process
		o := c20RunOnce(c, prog, 0, 0)
		b, _ := json.Marshal(o)
		os.WriteFile(out, b, 0644)
		return &core.Result{Input: "child"}
	}
	res := &core.Result{Input: prog, Hash: core.HashOf(prog), Nontrivial: true}
	res.Ev("programs", 1)
	n := thorN(c, 8, 20)
	m := thorN(c, 2, 5)
	var obs []c20obs
	var where []string
	for k := 0; k < n; k++ {
		nth := k % 4
		obs = append(obs, c20RunOnce(c, prog, nth, c.Seed*31+uint64(i)*7+uint64(k)*5))
		where = append(where, fmt.Sprintf("in-process run %d (as interpreter #%d of the process)", k, nth+1))
		res.Evals++
		res.Ev("in_process_runs", 1)
	}
	if i < len(c20Fixed) || i%10 == 0 {
		// once more after EVERY noise program has run in an earlier interpreter of this process
		obs = append(obs, c20RunOnce(c, prog, len(c20Noise), 0))
		where = append(where, fmt.Sprintf("in-process run after all %d noise programs", len(c20Noise)))
		res.Evals++
		res.Ev("in_process_runs", 1)
	}
	self, _ := os.Executable()
	for k := 0; k < m; k++ {
		out := filepath.Join(c.Work, fmt.Sprintf("c20-child-%d-%d.json", i, k))
		cmd := exec.Command(self, "-worker", "-prop", "C20", "-tier", c.Tier, "-seed", fmt.Sprint(c.Seed), "-from", fmt.Sprint(i), "-to", fmt.Sprint(i+1), "-journal", out+".journal", "-work", c.Work, "-bindir", c.BinDir)
		cmd.Env = append(os.Environ(), "VERIF_C20_CHILD_OUT="+out)
		cmd.Stdout, cmd.Stderr = nil, nil
		err := cmd.Run()
		b, rerr := os.ReadFile(out)
		os.Remove(out)
		os.Remove(out + ".journal")
		var o c20obs
		if err != nil || rerr != nil || json.Unmarshal(b, &o) != nil {
			o = c20obs{Val: fmt.Sprintf("CHILD-FAILED:%v", err)}
		}
		obs = append(obs, o)
		where = append(where, fmt.Sprintf("fresh process %d", k))
		res.Evals++
		res.Ev("fresh_process_runs", 1)
	}
	for k := 1; k < len(obs); k++ {
		if obs[k] != obs[0] {
			what := "value"
			a, b := obs[0].Val, obs[k].Val
			if a == b {
				what = "stdout"
				a, b = obs[0].Out, obs[k].Out
			}
			kind := "between-runs"
			if strings.HasPrefix(where[k], "in-process") && strings.Contains(where[k], "#1 ") == false && k < n {
				// differs from the first interpreter only when other interpreters ran before
				kind = "depends-on-earlier-interpreters"
				same := true
				for j := 0; j < n; j += 4 {
					if obs[j] != obs[0] {
						same = false
					}
				}
				if !same {
					kind = "between-runs"
				}
			}
			res.Violate("nondeterministic-"+what+":"+kind+":"+c20Class(prog), fmt.Sprintf("%s differs between %s and %s:\n  %s\n  %s", what, where[0], where[k], core.Trunc(a, 500), core.Trunc(b, 500)), prog)
			break
		}
	}
	return res
}

func c20Class(p string) string {
	for _, w := range []string{"json", "msgpack", "_method", "togo", "package", "gensym", "struct", "typelist", "defmap", "range", "symnum", "def "} {
		if strings.Contains(p, w) {
			return w
		}
	}
	return "other"
}
