package props

import (
	"fmt"
	"sort"
	"strconv"
	"strings"
	"sync"
	"time"

	"github.com/glycerine/zygomys/v9/zygo"
	"zyverif/core"
	"zyverif/sut"
)

// C10 — records convert to Go structs and back without loss (DESIGN §4.C10).

type C10Shape interface{ Area() float64 }

type C10Inner struct {
	Name string `json:"name"`
	N    int64  `json:"n"`
}

func (i *C10Inner) Area() float64 { return float64(i.N) }

// three levels of embedding below the outer struct
type C10Core struct {
	CoreA int    `json:"corea"`
	CoreB string `json:"coreb"`
	CoreC int64  `json:"corec"`
}

type C10Mid struct {
	C10Core
	MidX int `json:"midx"`
}

type C10Base struct {
	C10Mid
	BaseID  int    `json:"baseid"`
	BaseTag string `json:"basetag"`
}

type C10Outer struct {
	C10Base
	I     int                `json:"i"`
	I64   int64              `json:"i64"`
	F     float64            `json:"f"`
	S     string             `json:"s"`
	B     bool               `json:"b"`
	Ints  []int              `json:"ints"`
	Strs  []string           `json:"strs"`
	By    []byte             `json:"by"`
	M     map[string]string  `json:"m"`
	MF    map[string]float64 `json:"mf"`
	T     time.Time          `json:"t"`
	P     *C10Inner          `json:"p"`
	V     C10Inner           `json:"v"`
	Sh    C10Shape           `json:"sh"`
	Shs   []C10Shape         `json:"shs"`
	Ps    []*C10Inner        `json:"ps"`
	NoTag int
}

// the same Go field name (ID, Note) at several places of an embedding tree, under different tags
type C10AuditA struct {
	ID   int    `json:"audit_id"`
	Note string `json:"audit_note"`
}

type C10AuditB struct {
	ID   int    `json:"b_id"`
	Note string `json:"b_note"`
}

type C10Dup struct {
	C10AuditA
	C10AuditB
	ID    int    `json:"id"`
	Label string `json:"label"`
}

func (d *C10Dup) Echo(x *C10Dup) *C10Dup { return x }
func (d *C10Dup) Describe() string {
	return fmt.Sprintf("audit_id=%d audit_note=%q b_id=%d b_note=%q id=%d label=%q", d.C10AuditA.ID, d.C10AuditA.Note, d.C10AuditB.ID, d.C10AuditB.Note, d.ID, d.Label)
}

// C10Late is registered only after the process has already converted Go values to records
type C10Late struct {
	Tag string `json:"tag"`
	N   int64  `json:"n"`
}

type C10Holder struct {
	Name string   `json:"name"`
	L    *C10Late `json:"l"`
}

func (o *C10Outer) EchoLate(x *C10Late) *C10Late       { return x }
func (o *C10Outer) EchoHolder(x *C10Holder) *C10Holder { return x }
func (o *C10Outer) DescribeLate(x *C10Late) string     { return fmt.Sprintf("tag=%q n=%d", x.Tag, x.N) }

var c10lateOnce sync.Once

func c10RegisterLate() {
	c10lateOnce.Do(func() {
		zygo.GoStructRegistry.RegisterUserdef(&zygo.RegisteredType{GenDefMap: true, Factory: func(env *zygo.Zlisp, h *zygo.SexpHash) (interface{}, error) {
			return &C10Late{}, nil
		}}, true, "c10late")
		zygo.GoStructRegistry.RegisterUserdef(&zygo.RegisteredType{GenDefMap: true, Factory: func(env *zygo.Zlisp, h *zygo.SexpHash) (interface{}, error) {
			return &C10Holder{}, nil
		}}, true, "c10holder")
	})
}

func (o *C10Outer) DescribeSecond(first *C10Outer, x *C10Outer) string { return c10Describe(x) }
func (o *C10Outer) Echo(x *C10Outer) *C10Outer                         { return x }
func (o *C10Outer) EchoIn(x *C10Inner) *C10Inner                       { return x }
func (o *C10Outer) Describe() string                                   { return c10Describe(o) }
func (o *C10Outer) DescribeArg(x *C10Outer) string                     { return c10Describe(x) }

var c10once sync.Once

func c10Register() {
	c10once.Do(func() {
		zygo.GoStructRegistry.RegisterUserdef(&zygo.RegisteredType{GenDefMap: true, Factory: func(env *zygo.Zlisp, h *zygo.SexpHash) (interface{}, error) {
			return &C10Outer{}, nil
		}}, true, "c10outer")
		zygo.GoStructRegistry.RegisterUserdef(&zygo.RegisteredType{GenDefMap: true, Factory: func(env *zygo.Zlisp, h *zygo.SexpHash) (interface{}, error) {
			return &C10Inner{}, nil
		}}, true, "c10inner")
		zygo.GoStructRegistry.RegisterUserdef(&zygo.RegisteredType{GenDefMap: true, Factory: func(env *zygo.Zlisp, h *zygo.SexpHash) (interface{}, error) {
			return &C10Dup{}, nil
		}}, true, "c10dup")
		c10RegisterNode()
	})
}

// c10Describe renders a Go value canonically: nil and empty containers are
// the same, maps sorted, pointer identity shown as object numbers.
func c10Describe(o *C10Outer) string {
	if o == nil {
		return "<nil outer>"
	}
	ids := map[*C10Inner]int{}
	in := func(p *C10Inner) string {
		if p == nil {
			return "nil"
		}
		if _, ok := ids[p]; !ok {
			ids[p] = len(ids) + 1
		}
		return fmt.Sprintf("#%d{%q %d}", ids[p], p.Name, p.N)
	}
	shape := func(s C10Shape) string {
		if s == nil {
			return "nil"
		}
		if p, ok := s.(*C10Inner); ok {
			return in(p)
		}
		return fmt.Sprintf("?%T", s)
	}
	var b strings.Builder
	fmt.Fprintf(&b, "corea=%d coreb=%q corec=%d midx=%d ", o.CoreA, o.CoreB, o.CoreC, o.MidX)
	fmt.Fprintf(&b, "baseid=%d basetag=%q i=%d i64=%d f=%s s=%q b=%v notag=%d", o.BaseID, o.BaseTag, o.I, o.I64, strconv.FormatFloat(o.F, 'g', -1, 64), o.S, o.B, o.NoTag)
	fmt.Fprintf(&b, " ints=%v strs=%q by=%q", append([]int{}, o.Ints...), append([]string{}, o.Strs...), string(o.By))
	mk := []string{}
	for k := range o.M {
		mk = append(mk, k)
	}
	sort.Strings(mk)
	b.WriteString(" m={")
	for _, k := range mk {
		fmt.Fprintf(&b, "%s:%q ", k, o.M[k])
	}
	b.WriteString("} mf={")
	mk = mk[:0]
	for k := range o.MF {
		mk = append(mk, k)
	}
	sort.Strings(mk)
	for _, k := range mk {
		fmt.Fprintf(&b, "%s:%s ", k, strconv.FormatFloat(o.MF[k], 'g', -1, 64))
	}
	b.WriteString("}")
	if !o.T.IsZero() {
		b.WriteString(" t=set")
	} else {
		b.WriteString(" t=zero")
	}
	fmt.Fprintf(&b, " p=%s v={%q %d} sh=%s shs=[", in(o.P), o.V.Name, o.V.N, shape(o.Sh))
	for _, s := range o.Shs {
		b.WriteString(shape(s) + " ")
	}
	b.WriteString("] ps=[")
	for _, p := range o.Ps {
		b.WriteString(in(p) + " ")
	}
	b.WriteString("]")
	return b.String()
}

type c10val struct {
	g       *C10Outer
	defs    string // (def shN (c10inner …)) for shared records
	literal string // the record literal
	fields  []string
	parts   map[string]string // field -> literal text
	shared  bool
	hasTime bool
}

func c10Gen(r *core.Rng) *c10val {
	v := &c10val{g: &C10Outer{}}
	g := v.g
	var parts []string
	v.parts = map[string]string{}
	add := func(field, text string) {
		parts = append(parts, field+":"+text)
		v.fields = append(v.fields, field)
		v.parts[field] = text
	}
	words := []string{"", "a", "hello world", "q\"uote", "ünï", "tab\there", "x"}
	qs := func(s string) string { return strconv.Quote(s) }
	inner := func() (*C10Inner, string) {
		p := &C10Inner{Name: words[r.N(len(words))], N: int64(r.N(2000) - 1000)}
		return p, fmt.Sprintf("(c10inner name:%s n:%d)", qs(p.Name), p.N)
	}
	// shared records
	var shared []*C10Inner
	var sharedNames []string
	if r.N(3) == 0 {
		for k := 0; k < 1+r.N(2); k++ {
			p, lit := inner()
			name := fmt.Sprintf("sh%d", k)
			v.defs += fmt.Sprintf("(def %s %s)\n", name, lit)
			shared = append(shared, p)
			sharedNames = append(sharedNames, name)
		}
	}
	pick := func() (*C10Inner, string) {
		if len(shared) > 0 && r.N(2) == 0 {
			k := r.N(len(shared))
			v.shared = true
			return shared[k], sharedNames[k]
		}
		return inner()
	}
	if r.N(3) == 0 {
		g.CoreA = 1 + r.N(100)
		add("corea", strconv.Itoa(g.CoreA))
	}
	if r.N(3) == 0 {
		g.CoreB = words[1+r.N(len(words)-1)]
		add("coreb", qs(g.CoreB))
	}
	if r.N(3) == 0 {
		g.CoreC = int64(1 + r.N(1000))
		add("corec", strconv.FormatInt(g.CoreC, 10))
	}
	if r.N(3) == 0 {
		g.MidX = 1 + r.N(100)
		add("midx", strconv.Itoa(g.MidX))
	}
	if r.N(2) == 0 {
		g.BaseID = r.N(100)
		add("baseid", strconv.Itoa(g.BaseID))
	}
	if r.N(3) == 0 {
		g.BaseTag = words[r.N(len(words))]
		add("basetag", qs(g.BaseTag))
	}
	if r.N(2) == 0 {
		g.I = r.N(2000) - 1000
		add("i", strconv.Itoa(g.I))
	}
	if r.N(2) == 0 {
		g.I64 = []int64{0, 1, -1, 1 << 53, 9223372036854775807, -9223372036854775808, int64(r.N(1 << 30))}[r.N(7)]
		add("i64", strconv.FormatInt(g.I64, 10))
	}
	if r.N(2) == 0 {
		if r.N(3) == 0 { // an integer into a float64 field is an accepted conversion
			k := r.N(100)
			g.F = float64(k)
			add("f", strconv.Itoa(k))
		} else {
			g.F = []float64{0.5, -2.25, 1e-7, 123456.789, 3.0e10}[r.N(5)]
			add("f", strconv.FormatFloat(g.F, 'g', -1, 64))
		}
	}
	if r.N(2) == 0 {
		g.S = words[r.N(len(words))]
		add("s", qs(g.S))
	}
	if r.N(2) == 0 {
		g.B = r.Bool()
		add("b", fmt.Sprint(g.B))
	}
	if r.N(3) == 0 {
		n := r.N(4)
		var t []string
		g.Ints = []int{}
		for k := 0; k < n; k++ {
			x := r.N(200) - 100
			g.Ints = append(g.Ints, x)
			t = append(t, strconv.Itoa(x))
		}
		add("ints", "["+strings.Join(t, " ")+"]")
	}
	if r.N(3) == 0 {
		n := r.N(4)
		var t []string
		g.Strs = []string{}
		for k := 0; k < n; k++ {
			w := words[r.N(len(words))]
			g.Strs = append(g.Strs, w)
			t = append(t, qs(w))
		}
		add("strs", "["+strings.Join(t, " ")+"]")
	}
	if r.N(4) == 0 {
		w := []string{"abc", "", "x y"}[r.N(3)]
		g.By = []byte(w)
		add("by", "(raw "+qs(w)+")")
	}
	if r.N(4) == 0 {
		g.M = map[string]string{}
		var t []string
		for _, k := range []string{"ka", "kb", "kc"}[:1+r.N(3)] {
			w := words[r.N(len(words))]
			g.M[k] = w
			t = append(t, k+":"+qs(w))
		}
		add("m", "(hash "+strings.Join(t, " ")+")")
	}
	if r.N(4) == 0 {
		g.MF = map[string]float64{}
		var t []string
		for _, k := range []string{"fa", "fb"}[:1+r.N(2)] {
			f := []float64{1.5, -0.25, 2}[r.N(3)]
			g.MF[k] = f
			t = append(t, k+":"+strconv.FormatFloat(f, 'g', -1, 64))
		}
		add("mf", "(hash "+strings.Join(t, " ")+")")
	}
	if r.N(3) == 0 {
		p, lit := pick()
		g.P = p
		add("p", lit)
	}
	if r.N(4) == 0 {
		p, lit := inner()
		g.V = *p
		add("v", lit)
	}
	if r.N(3) == 0 {
		p, lit := pick()
		g.Sh = p
		add("sh", lit)
	}
	if r.N(4) == 0 {
		var t []string
		for k := 0; k < 1+r.N(3); k++ {
			p, lit := pick()
			g.Shs = append(g.Shs, p)
			t = append(t, lit)
		}
		add("shs", "["+strings.Join(t, " ")+"]")
	}
	if r.N(3) == 0 {
		var t []string
		for k := 0; k < 1+r.N(3); k++ {
			p, lit := pick()
			g.Ps = append(g.Ps, p)
			t = append(t, lit)
		}
		add("ps", "["+strings.Join(t, " ")+"]")
	}
	if r.N(6) == 0 {
		g.T = time.Unix(1, 0) // any non-zero time: scripts can only make one with (now)
		v.hasTime = true
		add("t", "(now)")
	}
	if r.N(4) == 0 {
		g.NoTag = r.N(50)
		add("NoTag", strconv.Itoa(g.NoTag))
	}
	v.literal = "(c10outer " + strings.Join(parts, " ") + ")"
	return v
}

func init() {
	core.Register(&core.Prop{
		ID:    "C10",
		Level: "exploration",
		Rule: "random values of harness-registered Go struct types covering every supported field kind (int, int64, float64, string, bool, []int, []string, []byte, map[string]string, map[string]float64, *Inner, nested struct value, interface-typed field, []Iface and []*Inner holding other registered structs, embedded structs three levels deep with tagged fields, untagged field) with shared records (the same record in two fields / twice in a slice): the record literal denoting the value is evaluated, then " +
			"(1) SexpToGoStructs and the implicit conversions when the record is the receiver or an argument of a Go method must produce a Go value equal to the generated one (canonical rendering with pointer identity); (2) (_method o Echo: r) must hand back a record whose every field equals r's (absent fields zero/nil/empty), also with nil pointers, nil interfaces and empty slices; (3) a record with one undeclared field or one value of the wrong kind (string into int, fractional float into int, int into pointer, array of strings into []int, string into bool, hash into string) must make the conversion report an error to the script, never succeed (an undeclared field also when its value is nil or []); (4) a struct whose Go field names repeat across three places of its embedding tree under different tags converts in both directions field by field; (6) struct types registered after the process has already converted Go values to records make the trip through Go, alone and nested; (5) convert / change every field with hset (fields no longer wanted set to nil) / convert again: a conversion into a fresh struct, the first- and second-argument routes and an explicit (togo r) followed by a call must all see the record as it is now (the bare receiver route keeps the Go object attached by the first conversion, by design, and is not judged after changes). non-trivial = distinct value with a nested/shared record or a slice/map field",
		Assumptions: []string{
			"int into a float64 field is an accepted conversion (value preserved)",
			"time.Time members come back from Go as nil (pinned by the repository's own Test018), so a time field is only required to arrive in Go (non-zero) and is expected to be nil after the trip back",
		},
		NCases: func(c *core.Ctx) int { return thorN(c, 2000, 50000) + c10CycCases },
		Chunk:  100,
		StallS: 15, CaseTimeoutS: 90, HangIsViolation: true, // a conversion that runs away (cyclic records) is a violation, not a slow case
		Sanitize: true,
		MustSee:  []string{"record_to_go", "receiver_conversions", "argument_conversions", "echo_round_trips", "shared_records", "negative_cases", "repeated_field_names", "convert_change_convert", "late_registered_types", "cyclic_records", "range_and_kind_probes"},
		Run:      c10Run,
	})
}

func c10Run(c *core.Ctx, i int) *core.Result {
	c10Register()
	if base := thorN(c, 2000, 50000); i >= base {
		return c10CycCase(c, i-base)
	}
	r := core.NewRng(c.Seed, "C10", i, 0)
	res := &core.Result{}
	if i%5 == 4 {
		return c10Negative(c, i, r, res)
	}
	if i%10 == 7 {
		return c10DupCase(c, i, r, res)
	}
	if i%10 == 2 {
		return c10Sequence(c, i, r, res)
	}
	if i%10 == 5 {
		return c10LateCase(c, i, r, res)
	}
	v := c10Gen(r)
	text := v.defs + "(def r " + v.literal + ")\n"
	res.Input = text
	res.Hash = core.HashOf(text)
	res.Nontrivial = v.shared || strings.ContainsAny(v.literal, "[") || strings.Contains(v.literal, "(hash") || strings.Contains(v.literal, "c10inner")
	if v.shared {
		res.Ev("shared_records", 1)
	}
	want := c10Describe(v.g)
	s := NewSutRun(true)
	o := s.Eval(text+"r\n", 0)
	res.Evals++
	if o.Panic != "" {
		res.Violate("escaped-panic:"+o.Site, o.Panic, text)
		return res
	}
	if o.Err != nil {
		res.Violate("record-literal-rejected", fmt.Sprintf("the record literal fails to evaluate: %s", o.ErrLine()), text)
		return res
	}
	rec, ok := o.Val.(*zygo.SexpHash)
	if !ok {
		res.Violate("record-literal-rejected", "not a record: "+OutStr(o), text)
		return res
	}
	// (1a) Go API
	var got C10Outer
	var err error
	pan, _ := sut.Protect(func() { _, err = zygo.SexpToGoStructs(rec, &got, s.Env, nil, 0, &got) })
	res.Ev("record_to_go", 1)
	if pan != "" || err != nil {
		res.Violate("record-to-go-fails", fmt.Sprintf("SexpToGoStructs fails on a well-formed record: %v %s", err, core.Trunc(pan, 300)), text)
		return res
	}
	if d := c10Describe(&got); d != want {
		res.Violate("record-to-go-differs:"+c10DiffField(want, d), fmt.Sprintf("SexpToGoStructs gives\n  %s\nwant\n  %s", d, want), text)
		return res
	}
	// (1b) implicit conversion as receiver and as argument of a Go method
	for _, call := range []struct{ ev, src string }{{"receiver_conversions", "(_method r Describe:)"}, {"argument_conversions", "(_method (c10outer) DescribeArg: r)"}} {
		s2 := NewSutRun(true)
		o2 := s2.Eval(text+call.src+"\n", 0)
		res.Evals++
		res.Ev(call.ev, 1)
		if o2.Err != nil || o2.Panic != "" {
			res.Violate("method-call-conversion-fails", fmt.Sprintf("%s fails: %s", call.src, OutStr(o2)), text+call.src)
			return res
		}
		gotd := c10FirstString(o2.Val)
		if gotd != want {
			res.Violate("method-call-conversion-differs:"+c10DiffField(want, gotd), fmt.Sprintf("%s received\n  %s\nwant\n  %s", call.src, gotd, want), text+call.src)
			return res
		}
	}
	// (2) the trip through Go and back
	s3 := NewSutRun(true)
	o3 := s3.Eval(text+"(first (_method (c10outer) Echo: r))\n", 0)
	res.Evals++
	res.Ev("echo_round_trips", 1)
	if o3.Err != nil || o3.Panic != "" {
		res.Violate("echo-fails", fmt.Sprintf("(_method o Echo: r) fails: %s", OutStr(o3)), text)
		return res
	}
	back, ok := o3.Val.(*zygo.SexpHash)
	if !ok || back.TypeName != "c10outer" {
		res.Violate("echo-differs:type", fmt.Sprintf("Echo returned %s, not a c10outer record", sut.Show(o3.Val)), text)
		return res
	}
	// convert the echoed record again: it must denote the same Go value
	var got2 C10Outer
	pan, _ = sut.Protect(func() { _, err = zygo.SexpToGoStructs(back, &got2, s3.Env, nil, 0, &got2) })
	if pan != "" || err != nil {
		res.Violate("echo-differs:unconvertible", fmt.Sprintf("the record returned by Echo cannot be converted again: %v %s\n  record: %s", err, core.Trunc(pan, 200), sut.Show(back)), text)
		return res
	}
	// sharing is a guarantee of the record->Go direction only: compare without object identities
	strip := func(x string) string {
		out := ""
		for k := 0; k < len(x); k++ {
			if x[k] == '#' {
				for k+1 < len(x) && x[k+1] >= '0' && x[k+1] <= '9' {
					k++
				}
				continue
			}
			out += string(x[k])
		}
		return out
	}
	wantEcho := want
	if v.hasTime {
		// time.Time members come back from Go as nil (pinned by the repository's Test018)
		wantEcho = strings.Replace(wantEcho, " t=set", " t=zero", 1)
	}
	if d := c10Describe(&got2); strip(d) != strip(wantEcho) {
		res.Violate("echo-differs:"+c10DiffField(want, d), fmt.Sprintf("after the trip through Go the record denotes\n  %s\nwant\n  %s\n  record: %s", d, want, sut.Show(back)), text)
	}
	return res
}

// c10DupCase: a struct in which one Go field name occurs at three places of the embedding tree
// under different tags: record -> Go must fill each place, and the trip back must name each.
func c10DupCase(c *core.Ctx, i int, r *core.Rng, res *core.Result) *core.Result {
	g := &C10Dup{}
	var parts []string
	words := []string{"", "a", "two words", "ünï"}
	if r.N(4) > 0 {
		g.C10AuditA.ID = 1 + r.N(500)
		parts = append(parts, fmt.Sprintf("audit_id:%d", g.C10AuditA.ID))
	}
	if r.N(3) > 0 {
		g.C10AuditA.Note = words[r.N(4)]
		parts = append(parts, fmt.Sprintf("audit_note:%q", g.C10AuditA.Note))
	}
	if r.N(4) > 0 {
		g.C10AuditB.ID = 1000 + r.N(500)
		parts = append(parts, fmt.Sprintf("b_id:%d", g.C10AuditB.ID))
	}
	if r.N(3) > 0 {
		g.C10AuditB.Note = words[r.N(4)]
		parts = append(parts, fmt.Sprintf("b_note:%q", g.C10AuditB.Note))
	}
	if r.N(4) > 0 {
		g.ID = 5000 + r.N(500)
		parts = append(parts, fmt.Sprintf("id:%d", g.ID))
	}
	if r.N(3) > 0 {
		g.Label = words[r.N(4)]
		parts = append(parts, fmt.Sprintf("label:%q", g.Label))
	}
	for k := len(parts) - 1; k > 0; k-- { // field order in the literal is free
		j := r.N(k + 1)
		parts[k], parts[j] = parts[j], parts[k]
	}
	text := "(def r (c10dup " + strings.Join(parts, " ") + "))\n"
	res.Input, res.Hash, res.Nontrivial = text, core.HashOf(text), true
	want := g.Describe()
	for _, call := range []string{"(_method r Describe:)", "(_method (first (_method (c10dup) Echo: r)) Describe:)", "(begin (togo r) (_method r Describe:))"} {
		s := NewSutRun(true)
		o := s.Eval(text+call+"\n", 0)
		res.Evals++
		res.Ev("repeated_field_names", 1)
		if o.Panic != "" {
			res.Violate("escaped-panic:"+o.Site, o.Panic, text+call)
			return res
		}
		if o.Err != nil {
			res.Violate("repeated-field-name-conversion-fails", fmt.Sprintf("%s fails: %s %v", call, OutStr(o), o.Err), text+call)
			return res
		}
		if got := c10FirstString(o.Val); got != want {
			res.Violate("repeated-field-name-conversion-differs", fmt.Sprintf("%s gives\n  %s\nwant\n  %s", call, got, want), text+call)
			return res
		}
	}
	// the record that comes back must carry every field under its own tag
	s := NewSutRun(true)
	o := s.Eval(text+"(def e (first (_method (c10dup) Echo: r)))\n(list (hget e audit_id: 0) (hget e b_id: 0) (hget e id: 0) (hget e audit_note: \"\") (hget e b_note: \"\") (hget e label: \"\"))\n", 0)
	res.Evals++
	wantList := fmt.Sprintf("(%d %d %d %q %q %q)", g.C10AuditA.ID, g.C10AuditB.ID, g.ID, g.C10AuditA.Note, g.C10AuditB.Note, g.Label)
	if o.Err != nil || o.Panic != "" {
		res.Violate("echo-fails", "reading the echoed c10dup record fails: "+OutStr(o), text)
	} else if got := o.Val.SexpString(nil); got != wantList {
		res.Violate("echo-differs:repeated-field-names", fmt.Sprintf("the record returned by Echo holds %s, want %s", got, wantList), text)
	}
	return res
}

// c10LateCase: struct types registered after the process has already converted Go values to records
// (any caches built by then must not hide them): a value of such a type handed back by a method, alone
// and nested inside another late type, must come back as a record of its type with its field values,
// and must be accepted again as an argument.
func c10LateCase(c *core.Ctx, i int, r *core.Rng, res *core.Result) *core.Result {
	tag := []string{"two", "", "ünï", "a b"}[r.N(4)]
	n := int64(r.N(1000))
	pre := "(def warm (first (_method (c10outer) Echo: (c10outer i:1 p:(c10inner n:2)))))\n"
	s := NewSutRun(true)
	if o := s.Eval(pre, 0); o.Err != nil || o.Panic != "" {
		res.Violate("echo-fails", "warm-up Echo fails: "+OutStr(o), pre)
		return res
	}
	c10RegisterLate()
	s2 := NewSutRun(true) // the type names become globals when an interpreter is set up
	text := pre + fmt.Sprintf("(def e (first (_method (c10outer) EchoLate: (c10late tag:%q n:%d))))\n(def h (first (_method (c10outer) EchoHolder: (c10holder name:\"hold\" l:(c10late tag:%q n:%d)))))\n(list (type? e) (hget e tag: \"?\") (hget e n: -1) (first (_method (c10outer) DescribeLate: e)) (type? h) (type? (hget h l: 0)) (hget (hget h l: (hash)) n: -1))\n", tag, n, tag, n+1)
	res.Input, res.Hash, res.Nontrivial = text, core.HashOf(text), true
	o := s2.Eval(text, 0)
	res.Evals += 2
	res.Ev("late_registered_types", 1)
	if o.Panic != "" {
		res.Violate("escaped-panic:"+o.Site, o.Panic, text)
		return res
	}
	want := fmt.Sprintf("(%q %q %d %q %q %q %d)", "c10late", tag, n, fmt.Sprintf("tag=%q n=%d", tag, n), "c10holder", "c10late", n+1)
	if o.Err != nil {
		res.Violate("echo-fails:late-registered-type", "a value of a struct type registered after the first Go-to-record conversion cannot make the trip: "+OutStr(o), text)
	} else if got := sut.Show(o.Val); got != want {
		res.Violate("echo-differs:late-registered-type", fmt.Sprintf("a value of a struct type registered after the first Go-to-record conversion comes back as %s, want %s", got, want), text)
	}
	return res
}

// c10Sequence: a record is converted, changed, and converted again by every route. Go must see
// the record as it is now (every route agreeing with a conversion into a fresh struct and with
// the value the changes denote), not a struct cached by an earlier conversion.
func c10Sequence(c *core.Ctx, i int, r *core.Rng, res *core.Result) *core.Result {
	v1 := c10Gen(r)
	var v2 *c10val
	for try := 0; ; try++ {
		v2 = c10Gen(core.NewRng(c.Seed, "C10seq", i, try))
		if v2.defs == "" && !v2.hasTime {
			break
		}
	}
	first := []string{"(togo r)", "(_method r Describe:)", "(_method (c10outer) DescribeArg: r)", "(_method (c10outer) Echo: r)", "(_method (c10outer p:(hget r p:) sh:(hget r sh:) ps:(hget r ps:)) Describe:)"}[r.N(5)]
	if strings.Contains(first, "(hget r p:)") && (v1.parts["p"] == "" || v1.parts["sh"] == "" || v1.parts["ps"] == "") {
		first = "(togo r)"
	}
	text := v1.defs + "(def r " + v1.literal + ")\n" + first + "\n"
	// now make r denote v2: set every field v2 has, clear every other field v1 had
	for _, f := range v2.fields {
		text += fmt.Sprintf("(hset r %s: %s)\n", f, v2.parts[f])
	}
	for _, f := range v1.fields {
		if _, keep := v2.parts[f]; !keep {
			text += fmt.Sprintf("(hset r %s: nil)\n", f)
		}
	}
	res.Input, res.Hash, res.Nontrivial = text, core.HashOf(text), true
	want := c10Describe(v2.g)
	s := NewSutRun(true)
	o := s.Eval(text+"r\n", 0)
	res.Evals++
	res.Ev("convert_change_convert", 1)
	if o.Panic != "" {
		res.Violate("escaped-panic:"+o.Site, o.Panic, text)
		return res
	}
	if o.Err != nil {
		res.Verdict, res.Key, res.Detail = core.Inconclusive, "sequence-setup-fails", o.ErrLine()
		return res
	}
	rec, ok := o.Val.(*zygo.SexpHash)
	if !ok {
		res.Verdict, res.Key = core.Inconclusive, "sequence-setup-fails"
		return res
	}
	var fresh C10Outer
	var err error
	pan, _ := sut.Protect(func() { _, err = zygo.SexpToGoStructs(rec, &fresh, s.Env, nil, 0, &fresh) })
	if pan != "" || err != nil {
		res.Violate("record-to-go-fails", fmt.Sprintf("after %s and the field updates, SexpToGoStructs into a fresh struct fails: %v %s", first, err, core.Trunc(pan, 300)), text)
		return res
	}
	if d := c10Describe(&fresh); d != want {
		res.Violate("record-to-go-differs:"+c10DiffField(want, d), fmt.Sprintf("after the updates the record converts (fresh struct) to\n  %s\nwant\n  %s", d, want), text)
		return res
	}
	// (the bare receiver route is not judged here: a record that has been converted keeps its attached Go object
	// as receiver by design; an explicit (togo r) converts again)
	for _, call := range []string{"(_method (c10outer) DescribeArg: r)", "(_method (c10outer) DescribeSecond: (c10outer) r)", "(begin (togo r) (_method r Describe:))", "(begin (togo r) (_method (c10outer) DescribeArg: r))"} {
		o2 := s.Eval(call+"\n", 0)
		res.Evals++
		if o2.Err != nil || o2.Panic != "" {
			res.Violate("method-call-conversion-fails", fmt.Sprintf("%s fails after %s and the updates: %s", call, first, OutStr(o2)), text+call)
			return res
		}
		if got := c10FirstString(o2.Val); got != want {
			res.Violate("stale-go-value:"+c10DiffField(want, got), fmt.Sprintf("after %s and the field updates, %s saw\n  %s\nwant (the record as it is now)\n  %s", first, call, got, want), text+call)
			return res
		}
	}
	return res
}

func c10FirstString(v zygo.Sexp) string {
	if a, ok := v.(*zygo.SexpArray); ok && len(a.Val) > 0 {
		v = a.Val[0]
	}
	if s, ok := v.(*zygo.SexpStr); ok {
		return s.S
	}
	return sut.Show(v)
}

// first field (key=) at which two canonical descriptions differ
func c10DiffField(a, b string) string {
	fa, fb := strings.Fields(a), strings.Fields(b)
	cur := "?"
	for k := 0; k < len(fa) && k < len(fb); k++ {
		if eq := strings.Index(fa[k], "="); eq > 0 && !strings.HasPrefix(fa[k], "#") {
			cur = fa[k][:eq]
		}
		if fa[k] != fb[k] {
			return cur
		}
	}
	return cur
}

func c10Negative(c *core.Ctx, i int, r *core.Rng, res *core.Result) *core.Result {
	bad := [][2]string{
		{"undeclared-field", "nosuch:1"}, {"undeclared-field", "Baseid:3"}, {"undeclared-field", "I:3"}, {"undeclared-field-nil", "nosuch:nil"}, {"undeclared-field-nil", "bogus:nil"}, {"undeclared-field-empty", "nosuch:[]"},
		{"string-into-int", `i:"str"`}, {"fraction-into-int", "i64:2.5"}, {"int-into-pointer", "p:5"},
		{"strings-into-int-slice", `ints:["a" "b"]`}, {"string-into-bool", `b:"yes"`}, {"hash-into-string", "s:(hash a:1)"},
		{"int-into-string", "s:5"}, {"string-into-float", `f:"x"`}, {"array-into-int", "i:[1]"}, {"int-into-map", "m:7"},
		{"string-into-inner", `v:"x"`}, {"int-into-interface", "sh:3"},
	}
	k := r.N(len(bad))
	v := c10Gen(r)
	// drop a generated field of the same name, then add the bad one at a random position
	name := strings.SplitN(bad[k][1], ":", 2)[0]
	lit := strings.TrimSuffix(strings.TrimPrefix(v.literal, "(c10outer "), ")")
	var keep []string
	for _, part := range c10SplitFields(lit) {
		if !strings.HasPrefix(part, name+":") {
			keep = append(keep, part)
		}
	}
	pos := r.N(len(keep) + 1)
	keep = append(keep[:pos], append([]string{bad[k][1]}, keep[pos:]...)...)
	text := v.defs + "(def r (c10outer " + strings.Join(keep, " ") + "))\n"
	res.Input = text
	res.Hash = core.HashOf(text)
	res.Nontrivial = true
	res.Ev("negative_cases", 1)
	routes := []string{"(togo r)", "(_method r Describe:)", "(_method (c10outer) DescribeArg: r)", "(_method (c10outer) Echo: r)"}
	route := routes[r.N(len(routes))]
	s := NewSutRun(true)
	o := s.Eval(text+route+"\n", 0)
	res.Evals++
	if o.Panic != "" {
		res.Violate("escaped-panic:"+o.Site, o.Panic, text+route)
		return res
	}
	if o.Err == nil {
		res.Violate("bad-record-converted-without-error:"+bad[k][0], fmt.Sprintf("%s on a record with %s (%s) must report an error, got %s", route, bad[k][1], bad[k][0], core.Trunc(OutStr(o), 300)), text+route)
		return res
	}
	// the record stays unconvertible: the same and every other route must fail again (a conversion that
	// failed must not leave a half-filled Go struct attached that later calls then use)
	for _, again := range []string{route, routes[r.N(len(routes))], "(_method r Describe:)"} {
		o2 := s.Eval(again+"\n", 0)
		res.Evals++
		if o2.Panic != "" {
			res.Violate("escaped-panic:"+o2.Site, o2.Panic, text+route+"\n"+again)
			return res
		}
		if o2.Err == nil {
			res.Violate("bad-record-converted-without-error:second-attempt:"+bad[k][0], fmt.Sprintf("after %s failed on a record with %s, %s succeeds: %s", route, bad[k][1], again, core.Trunc(OutStr(o2), 300)), text+route+"\n"+again)
			return res
		}
	}
	return res
}

// split "a:1 b:(x y) c:[1 2]" at top-level blanks
func c10SplitFields(s string) []string {
	var out []string
	depth, start, inStr := 0, 0, false
	for i := 0; i < len(s); i++ {
		ch := s[i]
		switch {
		case inStr:
			if ch == '\\' {
				i++
			} else if ch == '"' {
				inStr = false
			}
		case ch == '"':
			inStr = true
		case ch == '(' || ch == '[':
			depth++
		case ch == ')' || ch == ']':
			depth--
		case ch == ' ' && depth == 0:
			if i > start {
				out = append(out, s[start:i])
			}
			start = i + 1
		}
	}
	if start < len(s) {
		out = append(out, s[start:])
	}
	return out
}

// C10Register makes the harness types known to the registry (used by cmd/dbg).
func C10Register() { c10Register() }
