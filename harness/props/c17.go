package props

import (
	"fmt"
	"strings"

	"github.com/glycerine/zygomys/v9/zygo"
	"zyverif/core"
	"zyverif/sut"
)

// C17 — declared struct types are enforced on every write (DESIGN §4.C17).

type c17decl map[string]string // field -> type name (int64 string float64 bool []int64 []string In)

func c17TypeOK(typ string, inName string, v zygo.Sexp) bool {
	if v == zygo.SexpNull {
		return true
	}
	switch typ {
	case "int64":
		_, ok := v.(*zygo.SexpInt)
		return ok
	case "string":
		_, ok := v.(*zygo.SexpStr)
		return ok
	case "float64":
		_, ok := v.(*zygo.SexpFloat)
		return ok
	case "bool":
		_, ok := v.(*zygo.SexpBool)
		return ok
	case "rune":
		_, ok := v.(*zygo.SexpChar)
		return ok
	case "[]int64", "[]string":
		a, ok := v.(*zygo.SexpArray)
		if !ok {
			return false
		}
		// the language types an array by its first element (SexpArray.Type:
		// "take type from first element"); [] is accepted for every slice field
		if len(a.Val) == 0 {
			return true
		}
		if typ == "[]int64" {
			_, ok := a.Val[0].(*zygo.SexpInt)
			return ok
		}
		_, ok = a.Val[0].(*zygo.SexpStr)
		return ok
	case "In":
		h, ok := v.(*zygo.SexpHash)
		if !ok || h.TypeName != inName {
			return false
		}
		// the inner struct is declared again later with the single field z: an instance of that later
		// declaration is not a value of the type the outer struct's field was declared with
		for _, k := range h.KeyOrder {
			if sym, isSym := k.(*zygo.SexpSymbol); isSym && sym.Name() == "z" {
				return false
			}
		}
		return true
	case "*In":
		p, ok := v.(*zygo.SexpPointer)
		if !ok {
			return false
		}
		h, ok := p.Target.(*zygo.SexpHash)
		return ok && h.TypeName == inName
	}
	return false
}

// inspect reads the live instance through the exported SexpHash fields.
func c17Inspect(env *zygo.Zlisp, name string, decl c17decl, inName string) (problems []string, printed string) {
	obj, found := env.FindObject(name)
	if !found {
		return nil, "<unbound>"
	}
	h, ok := obj.(*zygo.SexpHash)
	if !ok {
		return nil, "<not a record: " + fmt.Sprintf("%T", obj) + ">"
	}
	pan, _ := sut.Protect(func() {
		printed = h.SexpString(nil)
		for _, k := range h.KeyOrder {
			v, err := h.HashGet(env, k)
			if err != nil {
				continue
			}
			sym, isSym := k.(*zygo.SexpSymbol)
			if !isSym {
				problems = append(problems, fmt.Sprintf("non-symbol-key|key %s of type %T", k.SexpString(nil), k))
				continue
			}
			typ, declared := decl[sym.Name()]
			if !declared {
				problems = append(problems, "undeclared-field|field "+sym.Name()+" = "+v.SexpString(nil))
				continue
			}
			if !c17TypeOK(typ, inName, v) {
				problems = append(problems, fmt.Sprintf("ill-typed-field:%s|field %s (declared %s) holds %T %s", typ, sym.Name(), typ, v, v.SexpString(nil)))
			}
		}
	})
	if pan != "" {
		problems = append(problems, "panic-while-inspecting|"+pan)
	}
	return
}

var c17Values = []string{"1", "-7", `"str"`, "2.5", "true", "nil", "[]", "[1 2]", `["a"]`, "[1.5]", "(IN q:1)", "(TT a:1)", "'c'", "(quote sym)", "(list 1 2)", "(hash q:1)", "12ULL", `[1 "a"]`, "(IN)", "(& (IN q:2))", "(& r)", "(& 5)", "(& (EE))", "int64", "[nil 1]", `[(hash k:"bad")]`, "[(IN q:1)]", "[(EE)]", "(IN z:1)", "oldin",
	// computed arrays: what a builtin returns is typed like the literal with the same elements
	"(map (fn [x] x) [1 2])", `(map (fn [x] "s") [1 2])`, "(keys (hash 5 1))", "(keys (hash a: 1))", `(append [] "s")`, "(append [] 1)", `(begin (def e9 []) (type? e9) (append e9 "s"))`,
	`(begin (def e8 [1 2]) (type? e8) (aset e8 0 "s") e8)`, `(rest ["s" 1 2])`, `(slice [1 "a" "b"] 1 3)`, "(map (fn [x] [x]) [1 2])", `(concat [1] ["s"])`, `(appendslice [] ["s"])`}

var c17Good = map[string][]string{
	"int64": {"1", "-7", "0"}, "string": {`"str"`, `""`}, "float64": {"2.5", "-0.5"}, "bool": {"true", "false"}, "rune": {"'x'", "'q'", `(sget "abc" 1)`},
	"[]int64": {"[1 2]", "[]", "[5]"}, "[]string": {`["a"]`, `["a" "b"]`, "[]"}, "In": {"(IN q:1)", "(IN q:9)"}, "*In": {"(& (IN q:1))", "(& (IN q:8))"},
}

var c17Routes = []string{
	"(hset r %f: %v)", "(hset r (quote %f) %v)", "(hset r [%f:] %v)", `(hset r "%f" %v)`,
	"(set r.%f %v)", "{r.%f = %v}", "(= r.%f %v)", "{r.%f := %v}", "{r[%f:] = %v}", `{r["%f"] = %v}`, "{r[(quote %f)] = %v}",
	"(def r (TT %f: %v))", "(derefSet (& r) (TT %f: %v))", "(hset (* (& r)) %f: %v)",
	`(def r (unjson (raw (concat "{\"Atype\":\"TT\", \"%f\":" (raw2str (json %v)) ", \"zKeyOrder\":[\"%f\"]}"))))`,
	`(def r (unmsgpack (msgpack (hash Atype: "TT" %f: %v))))`,
	"{r.in.q = %v}", "(hset r.in q: %v)", "{r.xs[0] = %v}", "{r.in = (IN q: %v)}",
	"(derefSet (& r) %v)", "(derefSet (& r.in) %v)", "(derefSet (& keep) (IN q: 1))",
}

func init() {
	core.Register(&core.Prop{
		ID:    "C17",
		Level: "exploration",
		Rule: "histories of 25 (quick) / 40 (thorough) steps on instances of freshly declared structs (fields int64, string, float64, bool, rune, ([]int64), ([]string), another struct whose name extends the outer struct's name, a pointer to it; plus a struct declared without fields): each step picks one of 20 write routes (constructor, hset with symbol / quoted symbol / [k] / string key, (set r.f v), infix {r.f = v}, (= r.f v), :=, index assignment with symbol and string keys, derefSet and hset through (& r), unjson and unmsgpack of a payload carrying the type name, nested paths {r.in.q = v}, element writes {r.xs[0] = v}), a field (declared, undeclared) and one of 43 value kinds (among them arrays computed by map, keys, append, rest, slice, concat, and arrays changed in place after their type was asked for) (pointers to the right and to other structs, the type int64 itself, [nil 1]); a third of the steps are writes of an exactly matching value, and the struct is redeclared with different fields in between. " +
			"After EVERY step the monitor inspects each live instance through the exported hash fields: keys must be symbols and declared in the definition in force when the instance was created, values must have the declared type (nil and [] accepted); a step that returned an error must leave the printed instance unchanged; a matching write must succeed and be readable. non-trivial = distinct history containing >=1 rejected write, >=1 accepted write and a redeclaration",
		Assumptions: []string{
			"nil is accepted for every field and [] for slice fields (the language's rule)",
			"decoding an ill-typed payload may fail or produce a well-typed instance; both are accepted",
		},
		NCases:  func(c *core.Ctx) int { return thorN(c, 3000, 40000) },
		Chunk:   50,
		MustSee: []string{"steps", "rejected_writes", "accepted_writes", "matching_writes", "redeclarations", "instances_inspected"},
		Run:     c17Run,
	})
}

func c17Run(c *core.Ctx, i int) *core.Result {
	r := core.NewRng(c.Seed, "C17", i, 0)
	res := &core.Result{}
	tt := fmt.Sprintf("T%dx%d", i, c.Seed%100000)
	in := tt + "In" // the outer struct's name is a proper prefix of the inner one's
	ee := fmt.Sprintf("E%dx%d", i, c.Seed%100000)
	sub := func(s string) string {
		return strings.ReplaceAll(strings.ReplaceAll(strings.ReplaceAll(s, "TT", tt), "IN", in), "EE", ee)
	}
	s := NewSutRun(true)
	declOld := c17decl{"a": "int64", "s": "string", "f": "float64", "b": "bool", "ch": "rune", "xs": "[]int64", "ss": "[]string", "in": "In", "pp": "*In"}
	declNew := c17decl{"a": "string", "f": "float64", "nw": "int64", "xs": "[]string", "in": "In", "pp": "*In"}
	setup := sub(`(struct IN [(field q: int64)]) (struct EE []) (struct TT [(field a: int64) (field s: string) (field f: float64) (field b: bool) (field ch: rune) (field xs: ([]int64)) (field ss: ([]string)) (field in: IN) (field pp: (* IN))]) (def r (TT a:1 s:"x" xs:[4 5] in:(IN q:3))) (def keep r) (def e0 (EE)) (def oldin (IN q:5))`)
	var hist []string
	hist = append(hist, setup)
	if o := s.Eval(setup+"\n", 0); o.Err != nil || o.Panic != "" {
		res.Violate("setup-failed", OutStr(o), setup)
		return res
	}
	// instance name -> object id; object id -> declaration in force at its creation
	obj := map[string]int{"r": 0, "keep": 0, "e0": 1}
	objDecl := map[int]c17decl{0: declOld, 1: c17decl{}}
	nextObj := 2
	inst := map[string]c17decl{"r": declOld, "keep": declOld, "e0": c17decl{}}
	sync := func() {
		for n, id := range obj {
			inst[n] = objDecl[id]
		}
	}
	cur := declOld
	redeclared := false
	inRedeclared := false
	fields := []string{"a", "s", "f", "b", "ch", "xs", "ss", "in", "zz", "nw", "pp"}
	steps := thorN(c, 25, 40)
	rejected, accepted := 0, 0
	check := func(src string, err bool, before map[string]string) bool {
		for name, d := range inst {
			probs, after := c17Inspect(s.Env, name, d, in)
			res.Ev("instances_inspected", 1)
			for _, p := range probs {
				parts := strings.SplitN(p, "|", 2)
				route := strings.ReplaceAll(strings.SplitN(strings.TrimLeft(src, "({"), " ", 2)[0], "r2", "r")
				res.Violate("instance-corrupted:"+parts[0]+":via-"+route, fmt.Sprintf("after %s the instance %s is %s: %s", src, name, after, parts[1]), strings.Join(hist, "\n"))
				return false
			}
			if err && before[name] != after && before[name] != "" {
				res.Violate("rejected-write-changed-instance", fmt.Sprintf("%s reported an error but %s changed from %s to %s", src, name, before[name], after), strings.Join(hist, "\n"))
				return false
			}
		}
		return true
	}
	for st := 0; st < steps; st++ {
		res.Ev("steps", 1)
		before := map[string]string{}
		for name, d := range inst {
			_, before[name] = c17Inspect(s.Env, name, d, in)
		}
		var src string
		matching := false
		switch {
		case st == steps/2 && !redeclared:
			src = sub(`(struct TT [(field a: string) (field f: float64) (field nw: int64) (field xs: ([]string)) (field in: IN) (field pp: (* IN))]) (def r2 (TT a:"new" nw:5 in:(IN q:1)))`)
			redeclared = true
			res.Ev("redeclarations", 1)
		case redeclared && !inRedeclared && r.N(3) == 0:
			// the inner struct is declared again too, with another field: instances of it are a different type
			src = sub(`(struct IN [(field z: int64)])`)
			inRedeclared = true
		case r.N(12) == 0: // a struct declared without fields accepts no key of any kind
			src = sub([]string{`(hset e0 "k" 1)`, "(hset e0 5 1)", "(hset e0 [1 2] 1)", `{e0["k"] = 1}`, "{e0[3] = 1}", "(hset e0 k: 1)", "(set e0.k 1)", "{e0.k = 1}", "(hset e0 (quote k) 1)", "(hset e0 'c' 1)", `(def e0 (EE))`}[r.N(11)])
		case r.N(3) == 0: // a write that must be accepted
			target := "r"
			d := inst[target]
			if redeclared && r.Bool() {
				target, d = "r2", declNew
			}
			var fs []string
			for f := range d {
				fs = append(fs, f)
			}
			f := fs[r.N(len(fs))]
			// deterministic order irrespective of map iteration
			for _, cand := range fields {
				if _, ok := d[cand]; ok && r.N(3) == 0 {
					f = cand
					break
				}
			}
			good := c17Good[d[f]]
			v := good[r.N(len(good))]
			if inRedeclared { // the literal (IN q: …) now denotes the later declaration: use the instance made before it
				switch d[f] {
				case "In":
					v = "oldin"
				case "*In":
					v = "(& oldin)"
				}
			}
			route := []string{"(hset TGT %f: %v)", "(set TGT.%f %v)", "{TGT.%f = %v}", "{TGT[(quote %f)] = %v}", "(hset TGT [%f:] %v)", "(hset TGT (quote %f) %v)", "(= TGT.%f %v)", "(hset (* (& TGT)) %f: %v)"}[r.N(8)]
			src = sub(strings.ReplaceAll(strings.ReplaceAll(strings.ReplaceAll(route, "TGT", target), "%f", f), "%v", v))
			matching = true
			res.Ev("matching_writes", 1)
		default:
			rt := c17Routes[r.N(len(c17Routes))]
			if strings.Contains(rt, "xs[0]") && r.N(4) != 0 {
				rt = c17Routes[r.N(len(c17Routes)-3)] // element writes (a recorded finding ends the history) are kept rare
			}
			f := fields[r.N(len(fields))]
			v := c17Values[r.N(len(c17Values))]
			src = sub(strings.ReplaceAll(strings.ReplaceAll(rt, "%f", f), "%v", v))
			if redeclared && r.N(3) == 0 {
				src = strings.ReplaceAll(src, "r.", "r2.")
				src = strings.ReplaceAll(src, " r ", " r2 ")
				src = strings.ReplaceAll(src, "r[", "r2[")
			}
		}
		hist = append(hist, src)
		o := s.Eval(src+"\n", 0)
		res.Evals++
		if o.Panic != "" {
			res.Violate("escaped-panic:"+o.Site, o.Panic, strings.Join(hist, "\n"))
			break
		}
		isErr := o.Err != nil
		if isErr {
			rejected++
			res.Ev("rejected_writes", 1)
		} else {
			accepted++
			res.Ev("accepted_writes", 1)
		}
		if strings.Contains(src, "(def r2 ") && !isErr {
			obj["r2"] = nextObj
			objDecl[nextObj] = declNew
			nextObj++
			cur = declNew
		}
		if strings.HasPrefix(src, "(def r (") && !isErr {
			// r now names a new instance created under the definition in force
			obj["r"] = nextObj
			objDecl[nextObj] = cur
			nextObj++
		}
		if strings.HasPrefix(src, "(derefSet (& r)") && !isErr {
			// *p = v overwrites the object r names in place (every alias sees it)
			// with an instance created under the definition in force
			objDecl[obj["r"]] = cur
		}
		sync()
		if matching && isErr {
			res.Violate("matching-write-rejected", fmt.Sprintf("%s writes a value of exactly the declared type but failed: %s", src, o.ErrLine()), strings.Join(hist, "\n"))
			break
		}
		if !check(src, isErr && !strings.HasPrefix(src, "(def r"), before) {
			break
		}
	}
	_ = cur
	res.Input = strings.Join(hist, "\n")
	res.Hash = core.HashOf(strings.ReplaceAll(strings.ReplaceAll(res.Input, tt, "T"), in, "In"))
	res.Nontrivial = rejected > 0 && accepted > 0 && redeclared
	return res
}
