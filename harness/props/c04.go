package props

import (
	"fmt"
	"os"
	"path/filepath"
	"strings"
	"sync"

	"github.com/glycerine/zygomys/v9/zygo"
	"zyverif/core"
	"zyverif/lang"
	"zyverif/sut"
)

// C04 — a successful evaluation leaves nothing behind (DESIGN §4.C04).

// balance monitor: public Pre/PostHook + the depth accessor of the hook file.
type balMon struct {
	stack   []balEnt
	bad     string
	calls   int64
	dirty   bool // an error happened: pairing of pre/post is no longer reliable
	maxNest int
}
type balEnt struct {
	env   *zygo.Zlisp
	name  string
	data  int
	scope int
	nargs int
}

func (b *balMon) install(env *zygo.Zlisp) {
	env.AddPreHook(func(e *zygo.Zlisp, name string, args []zygo.Sexp) {
		d := sut.DepthsOf(e)
		b.stack = append(b.stack, balEnt{e, name, d.Data, d.Scope, len(args)})
		if len(b.stack) > b.maxNest {
			b.maxNest = len(b.stack)
		}
	})
	env.AddPostHook(func(e *zygo.Zlisp, name string, ret zygo.Sexp) {
		if b.dirty || len(b.stack) == 0 {
			return
		}
		top := b.stack[len(b.stack)-1]
		b.stack = b.stack[:len(b.stack)-1]
		if top.env != e || top.name != name {
			// a tail call or an absorbed error re-paired the hooks: give up on this evaluation
			b.dirty = true
			return
		}
		b.calls++
		d := sut.DepthsOf(e)
		if want := top.data - top.nargs + 1; d.Data != want && b.bad == "" {
			b.bad = fmt.Sprintf("call of %s with %d argument(s): data stack depth %d before, %d at return (a call must replace its arguments by exactly one result: want %d)", name, top.nargs, top.data, d.Data, want)
		}
		if d.Scope != top.scope && b.bad == "" {
			b.bad = fmt.Sprintf("call of %s: scope stack depth %d before, %d at return", name, top.scope, d.Scope)
		}
	})
}

func (b *balMon) reset() { b.stack, b.dirty = nil, false }

var c04Empty = []string{"", "\n", "   \n", "// only a comment\n", "/* block */\n"}

// c04EmptyProbe: empty input returns nil, never a stale value.
func c04EmptyProbe(res *core.Result, env *zygo.Zlisp, i int, context string) {
	t := c04Empty[i%len(c04Empty)]
	o := sut.Eval(env, t, 0)
	res.Ev("empty_input_probes", 1)
	if got := OutStr(o); got != "nil" {
		res.Violate("empty-input-returns-stale-value", fmt.Sprintf("after %s, evaluating the empty text %q returned %s instead of nil", context, t, got), context)
	}
}

func c04Rest(res *core.Result, env *zygo.Zlisp, what, input string) bool {
	d := sut.DepthsOf(env)
	res.Ev("rest_state_checks", 1)
	if !atRest(d) || d.Data != 0 {
		res.Violate("not-at-rest:"+restKind(d), fmt.Sprintf("after the successful evaluation of %s the VM is not at rest: %v (want data=0 scope=1 addr=0 loop=0)", what, d), input)
		return false
	}
	return true
}

func restKind(d sut.Depths) string {
	var k []string
	if d.Data != 0 {
		k = append(k, "data")
	}
	if d.Scope != 1 {
		k = append(k, "scope")
	}
	if d.Addr != 0 {
		k = append(k, "addr")
	}
	if d.Loop != 0 {
		k = append(k, "loop")
	}
	return strings.Join(k, "+")
}

var c04FilesOnce sync.Once

// c04Subst fills a template: $ is the case-unique suffix, %DIR% the directory of
// the three files the include/source forms read (written once per worker).
func c04Subst(c *core.Ctx, f, suffix string) string {
	if strings.Contains(f, "%DIR%") {
		c04FilesOnce.Do(func() {
			os.MkdirAll(c.Work, 0755)
			os.WriteFile(filepath.Join(c.Work, "one.zy"), []byte("7\n(+ 1 2)\n"), 0644)
			os.WriteFile(filepath.Join(c.Work, "two.zy"), []byte("(* 2 4)\n"), 0644)
			os.WriteFile(filepath.Join(c.Work, "empty.zy"), []byte("// nothing here\n"), 0644)
		})
		f = strings.ReplaceAll(f, "%DIR%", c.Work)
	}
	return strings.ReplaceAll(f, "$", suffix)
}

// declaration surface: forms of the full language, $ is replaced by a
// case-unique suffix (types live in a process-global registry).
var c04Decl = [][]string{
	{"(struct Pt$ [(field x: int64) (field y: int64)])", "(def p$ (Pt$ x:1 y:2))", "(hset p$ x: 5)", "{p$.y = 9}", "(set p$.x 3)", "(+ p$.x p$.y)"},
	{"(func add$ [a:int64] [n:int64] (+ a 3))", "(add$ 4)", "(func two$ [a:int64 b:int64] [n:int64] (* a b))", "(two$ 3 (add$ 1))", "(add$ a: 4)", "(two$ a: 3 b: 4)", "(two$ b: 4 a: 3)", "(+ 1 (two$ b: 2 a: (add$ a: 1)))", "(begin (two$ a: 1 b: 2) (two$ b: 5 a: 6))"},
	{"(struct Q$ [(field z: int64)])", "(method [p:Q$] nrm$ [] [n:int64] 7)", "(interface I$ [(method nrm$ [] [n:int64])])", "(def q$ (Q$ z:2))", "q$.z"},
	{"(var v$ int64)", "(var s$ string)", "(def w$ 3)", "(+ w$ 1)"},
	{"(defmap zork$)", "(def z$ (zork$ a:1 b:\"x\"))", "(hget z$ a:)", "(hset z$ c: 3)", "(len (keys z$))"},
	{"(package pk$ (def A 1) (def b 2) (defn Get [] (+ A b)))", "(def r$ 5)", "(+ r$ 1)"},
	{"(defmac m$ [x] ^(+ 1 ~x))", "(m$ 4)", "(defmac n$ [x & r] ^(list ~x ~@r))", "(n$ 1 2 3)", "(macexpand (m$ 7))"},
	{"(def ct$ 0)", "(range k v [1 2 3] (set ct$ (+ ct$ k v)))", "(++ ct$)", "(+= ct$ 4)", "(-- ct$)", "ct$"},
	{"(mdef c$ d$ (list 7 8))", "(+ c$ d$)", "{e$, f$ = 1, 2}", "(+ e$ f$)", "(g$ k$ = 5 6)", "(+ g$ k$)", "(def w$ [1 2 3])", "(+ 1 (set (arrayidx w$ [0]) 5))", "(begin {w$[2] = 1} 9)", "{w$[1] += w$[0] += 2}"},
	{"{x$ := 5}", "{x$++}", "{x$ += 2}", "{if x$ > 3 { x$ } else { 0 }}", "{if x$ > 30 { x$ }}", "{x$ = x$ * 2 + 1}", "x$"},
	{"(def a$ [1 2 3])", "{a$[1] = 7}", "{a$[0] + a$[2]}", "(def h$ (hash k: 1))", "{h$.k = 4}", "{h$.k + 1}", "(aget a$ 1)"},
	{"{t$ := 0}", "{for i := 0; i < 3; i++ { t$ += i }}", "{for i := range 3 { t$ += i }}", "{for t$ < 20 { t$ += 5 }}", "{for { t$++; if t$ > 25 { break } }}", "t$"},
	{"{u$ := 0}", "(def ar$ [4 5 6])", "{for i, v := range ar$ { u$ += v }}", "{for v := range ar$ { u$ += v }}", "(def hs$ (hash a:1 b:2))", "{for k, v := range hs$ { u$ += v }}", "u$"},
	{"{n$ := 0}", "{outer: for i := 0; i < 3; i++ { for j := 0; j < 3; j++ { if j == 1 { continue outer }; if i == 2 { break outer }; n$++ } } }", "n$"},
	{"(def g$ 0)", "(for L$: [(def i 0) (< i 3) (def i (+ i 1))] (for [(def j 0) (< j 3) (def j (+ j 1))] (cond (== j 1) (continue L$:) nil) (let [q 1] (cond (== i 2) (break L$:) nil)) (set g$ (+ g$ 1))))", "g$"},
	{"(defn tl$ [n acc] (cond (<= n 0) acc (let [m (- n 1)] (newScope (tl$ m (+ acc n))))))", "(tl$ 50 0)", "(defn nt$ [n] (cond (<= n 0) 0 (+ n (nt$ (- n 1)))))", "(nt$ 20)"},
	{"(def lz$ (fn [#x y] (cond (> y 0) (force #x) 0)))", "(lz$ (+ 1 2) 1)", "(lz$ (+ 1 2) 0)", "(apply lz$ [5 1])"},
	{"(def s$ \"abc\")", "(concat s$ \"d\")", "(len s$)", "(str 12)", "(sget s$ 1)", "`raw $`", "'c'"},
	{"(def l$ (list 1 2 3))", "(first l$)", "(rest l$)", "(cons 0 l$)", "(map (fn [x] (* x x)) l$)", "(apply + l$)", "(quote (a b))", "%(1 2)"},
	{"(include \"%DIR%/one.zy\" \"%DIR%/two.zy\")", "(+ 1 (include \"%DIR%/two.zy\"))", "(include [\"%DIR%/one.zy\" \"%DIR%/empty.zy\"])", "(include \"%DIR%/empty.zy\")", "(source \"%DIR%/one.zy\")", "(len [1 (begin) (newScope) 2])", "(+ 1 2 (or (begin) 4))", "(begin)", "(newScope)", "(def inc$ (include \"%DIR%/one.zy\" \"%DIR%/one.zy\" \"%DIR%/two.zy\"))", "inc$"},
	{"(include \"%DIR%/one.zy\" \"%DIR%/empty.zy\")", "(include \"%DIR%/empty.zy\" \"%DIR%/two.zy\")", "(include [\"%DIR%/one.zy\" \"%DIR%/empty.zy\" \"%DIR%/two.zy\"])", "(include \"%DIR%/empty.zy\" \"%DIR%/empty.zy\")", "(+ 1 (include \"%DIR%/empty.zy\" \"%DIR%/two.zy\"))", "(source \"%DIR%/one.zy\" \"%DIR%/empty.zy\")", "(source \"%DIR%/empty.zy\" \"%DIR%/two.zy\")", "(def after$ 5)", "after$"},
	{"(source \"%DIR%/one.zy\" \"%DIR%/two.zy\")", "(source [\"%DIR%/one.zy\" \"%DIR%/two.zy\"])", "(+ 1 (source \"%DIR%/two.zy\" \"%DIR%/one.zy\"))", "(source \"%DIR%/empty.zy\")", "(func g2$ [] [a:int64 b:int64])", "(g2$)", "(len (g2$))", "(func g1$ [] [a:int64])", "(g1$)", "(func g0$ [] [])", "(g0$)", "(len [1 (g0$) 2])", "(func r2$ [a:int64] [x:int64 y:int64] (return a (+ a 1)))", "(r2$ 4)", "(len (r2$ 4))"},
	{"(def f$ (fn [a & r] (len r)))", "(f$ 1)", "(f$ 1 2 3)", "((fn [] 7))", "(let [k 2] (letseq [m k n (+ m 1)] (* m n)))", "(newScope (def inner$ 1) inner$)", "(begin 1 2 3)", "(and 1 2)", "(or 0 nil 3)"},
}

func init() {
	core.Register(&core.Prop{
		ID:    "C04",
		Level: "exploration",
		Rule: "three kinds of case. (1) generated core-language programs (C02 generator with recursion, tail-context compositions, labelled break/continue below let/newScope/cond, variadics, closures): after the successful evaluation the depths of the four VM stacks read through the hook accessor must be data=0 scope=1 addr=0 loop=0; every call observed through the public pre/post call hooks must have replaced its arguments by exactly one result and left the scope depth unchanged; the same forms evaluated one at a time in a second interpreter must give the same trace, the same final value and the same answers to a follow-up battery (together-vs-separately, real code on both sides); empty/whitespace/comment-only input must then return nil. " +
			"(2) the declaration surface (struct, func, method, interface, var, defmap, package, defmac/macexpand, range, ++/+=/--, mdef and multiple assignment, infix blocks with if/else, every go-for header shape, labelled break/continue, selector and index assignment, lazy formals, lists/strings): each form separately and all together, same oracles. " +
			"(4) host-API sequences of 20 steps on one interpreter (EvalString, LoadString once and three times before one Run, ParseTokens+EvalExpressions, Apply at top level, Duplicate().EvalString, macro / lazy / range uses), each step's value judged by a model of the integer globals, rest state after every step, all globals read back and empty input probed every four steps. (3) one long-lived interpreter serves a history of 150 (quick) / 600 (thorough) mixed evaluations including failing ones; the depth vector is sampled at every quiescent point and must stay constant. non-trivial = distinct case whose evaluation performed at least one call and one scope push",
		Assumptions: []string{
			"growth of the main instruction buffer and of the Go heap is recorded but not judged (the VM appends every load to its main function by design)",
			"per-call balance is not judged for evaluations in which an error occurred (hook pairing is lost) — C05 judges those",
		},
		NCases:       func(c *core.Ctx) int { return thorN(c, 2400, 40000) + thorN(c, 80, 800) },
		MustSee:      []string{"rest_state_checks", "calls_balanced", "together_vs_separately", "empty_input_probes", "idle_history_steps", "declaration_forms", "api_steps"},
		CaseTimeoutS: 30,
		Run:          c04Run,
	})
}

func c04Run(c *core.Ctx, i int) *core.Result {
	if base := thorN(c, 2400, 40000); i >= base {
		// host-API sequences (apiseq.go): only steps that succeed
		res := &core.Result{Nontrivial: true}
		apiSeqRun(res, core.NewRng(c.Seed, "C04api", i, 0), 20, false, "api:")
		if res.Input == "" {
			res.Input = fmt.Sprintf("host-API sequence %d", i-base)
			res.Hash = core.HashOf(res.Input)
		}
		return res
	}
	switch {
	case i%12 == 11:
		return c04History(c, i)
	case i%4 == 3:
		return c04DeclCase(c, i)
	}
	return c04Program(c, i)
}

func c04Program(c *core.Ctx, i int) *core.Result {
	var g *lang.G
	var prog []*lang.N
	for try := 0; ; try++ {
		g = &lang.G{R: core.NewRng(c.Seed, "C04", i, try), C: lang.Cfg{
			Depth: 3 + i%3, Pool: []string{"a", "b", "c"}, Data: i%2 == 0, HigherOrder: true, Variadic: true, Recursion: true, Alias: i%3 == 0,
			Lazy: i%5 == 0, TrOneIn: 3, MaxStmts: 4,
		}}
		prog = g.Program()
		if lang.Count(prog) <= thorN(c, 120, 200) || try >= 6 {
			break
		}
	}
	text := lang.Plain.Program(prog)
	res := &core.Result{Input: text, Hash: core.HashOf(text)}
	// A: whole text at once
	a := NewSutRun(false)
	mon := &balMon{}
	mon.install(a.Env)
	zygo.Verif.HistOn = false
	oa := a.Eval(text, 60000)
	res.Evals++
	if oa.Panic != "" {
		res.Violate("escaped-panic:"+oa.Site, oa.Panic, text)
		return res
	}
	if oa.Budget {
		res.Verdict, res.Key = core.Inconclusive, "budget"
		return res
	}
	if oa.Err != nil {
		// failed evaluations are C05's subject; still useful: interpreter must be at rest
		res.Ev("failed_programs", 1)
		mon.dirty = true
	} else {
		c04Rest(res, a.Env, "the program", text)
		if mon.bad != "" && !mon.dirty && a.Absorbed == 0 {
			res.Violate("call-unbalanced", mon.bad, text)
		}
		res.Ev("calls_balanced", mon.calls)
		res.Ev("max_call_nesting", int64(mon.maxNest))
		c04EmptyProbe(res, a.Env, i, "the program")
	}
	// B: the same forms one at a time
	b := NewSutRun(false)
	var ob *sut.Outcome
	failedAt := -1
	for k, f := range prog {
		ob = b.Eval(lang.Plain.Program([]*lang.N{f}), 60000)
		res.Evals++
		if ob.Err != nil || ob.Panic != "" || ob.Budget {
			failedAt = k
			break
		}
		if !c04Rest(res, b.Env, fmt.Sprintf("form %d", k), lang.Plain.Program([]*lang.N{f})) {
			break
		}
	}
	if oa.Err == nil && failedAt < 0 && res.Verdict != core.Violated {
		res.Ev("together_vs_separately", 1)
		if OutStr(oa) != OutStr(ob) {
			res.Violate("together-vs-separately:value", fmt.Sprintf("whole text gives %s, form by form the last form gives %s", OutStr(oa), OutStr(ob)), text)
		} else if strings.Join(a.Trace, ",") != strings.Join(b.Trace, ",") {
			res.Violate("together-vs-separately:effects", fmt.Sprintf("effect traces differ\n  together   %v\n  separately %v", a.Trace, b.Trace), text)
		} else {
			for _, f := range g.TopFns {
				bt := lang.Plain.Program([]*lang.N{lang.BatteryCall(f, 2)})
				a.Trace, b.Trace = nil, nil
				x, y := a.Eval(bt, 60000), b.Eval(bt, 60000)
				res.Evals += 2
				if OutStr(x) != OutStr(y) || strings.Join(a.Trace, ",") != strings.Join(b.Trace, ",") {
					res.Violate("together-vs-separately:battery", fmt.Sprintf("%s gives %s after evaluating together and %s after evaluating separately", strings.TrimSpace(bt), OutStr(x), OutStr(y)), text+bt)
					break
				}
				if x.Err == nil && x.Panic == "" && !x.Budget {
					if !c04Rest(res, a.Env, strings.TrimSpace(bt), text+bt) {
						break
					}
				}
			}
		}
	} else if oa.Err == nil && failedAt >= 0 && !ob.Budget {
		res.Violate("together-vs-separately:error", fmt.Sprintf("whole text succeeds (%s) but form %d alone fails: %s", OutStr(oa), failedAt, OutStr(ob)), text)
	}
	hasScope := false
	lang.Walk(prog, func(n *lang.N) {
		switch n.K {
		case "let", "letseq", "newscope", "for":
			hasScope = true
		}
	})
	res.Nontrivial = mon.calls > 0 && hasScope
	return res
}

func c04DeclCase(c *core.Ctx, i int) *core.Result {
	r := core.NewRng(c.Seed, "C04d", i, 0)
	tmpl := c04Decl[(i/4)%len(c04Decl)]
	second := c04Decl[r.N(len(c04Decl))]
	suffix := fmt.Sprintf("x%dq%d", i, c.Seed%1000)
	var forms []string
	for _, f := range tmpl {
		forms = append(forms, c04Subst(c, f, suffix))
	}
	for _, f := range second {
		forms = append(forms, c04Subst(c, f, suffix+"b"))
	}
	whole := strings.Join(forms, "\n") + "\n"
	res := &core.Result{Input: whole, Hash: core.HashOf(strings.ReplaceAll(strings.ReplaceAll(whole, suffix, ""), c.Work, "@")), Nontrivial: true}
	sep := NewSutRun(true)
	mon := &balMon{}
	mon.install(sep.Env)
	var vals []string
	for k, f := range forms {
		mon.reset()
		mon.bad = ""
		o := sep.Eval(f+"\n", 3000000)
		res.Evals++
		res.Ev("declaration_forms", 1)
		if o.Panic != "" {
			res.Violate("escaped-panic:"+o.Site, o.Panic, f)
			return res
		}
		if o.Err != nil {
			res.Violate("declaration-form-fails", fmt.Sprintf("form %d %q of the declaration surface fails on this tree: %s", k, f, o.ErrLine()), whole)
			return res
		}
		vals = append(vals, OutStr(o))
		if !c04Rest(res, sep.Env, fmt.Sprintf("%q", f), f) {
			return res
		}
		if mon.bad != "" && !mon.dirty {
			res.Violate("call-unbalanced", fmt.Sprintf("in %q: %s", f, mon.bad), f)
			return res
		}
		res.Ev("calls_balanced", mon.calls)
		if k%3 == 0 {
			c04EmptyProbe(res, sep.Env, i+k, fmt.Sprintf("%q", f))
		}
	}
	// together (types were registered above already: use a second suffix)
	whole2 := strings.ReplaceAll(whole, suffix, suffix+"t")
	tog := NewSutRun(true)
	o := tog.Eval(whole2, 5000000)
	res.Evals++
	if o.Panic != "" {
		res.Violate("escaped-panic:"+o.Site, o.Panic, whole2)
	} else if o.Err != nil {
		res.Violate("together-vs-separately:error", "forms that succeed one at a time fail as one text: "+o.ErrLine(), whole2)
	} else {
		res.Ev("together_vs_separately", 1)
		c04Rest(res, tog.Env, "the declaration text", whole2)
		want := strings.ReplaceAll(vals[len(vals)-1], suffix, suffix+"t")
		if got := OutStr(o); got != want {
			res.Violate("together-vs-separately:value", fmt.Sprintf("last form gives %s alone and %s when evaluated with the others", want, got), whole2)
		}
		c04EmptyProbe(res, tog.Env, i, "the declaration text")
	}
	return res
}

// c04History: an idle interpreter does not grow with the evaluations served.
func c04History(c *core.Ctx, i int) *core.Result {
	n := thorN(c, 150, 600)
	s := NewSutRun(true)
	res := &core.Result{Nontrivial: true}
	var hist []string
	r := core.NewRng(c.Seed, "C04h", i, 0)
	_, _, _, _, _, main0 := s.Env.VerifDepths()
	for k := 0; k < n; k++ {
		var t string
		switch r.N(4) {
		case 0:
			tm := c04Decl[r.N(len(c04Decl))]
			t = c04Subst(c, tm[r.N(len(tm))], fmt.Sprintf("h%dk%d", i, k))
		case 1:
			t = []string{"(+ 1", ")", "(undefined-fn 3)", "(aget [1] 9)", "(let)", "{1 +}", "(/ 1 0)", "(for [1 2] 3)", "\"open", "(break)",
				"(for [(def i 0) (< i 3) (set i)] 1)", "(for [(def i 0) (< i) (def i (+ i 1))] 1)", "(for [(def) (< i 3) (def i (+ i 1))] 1)", "(for [(def i 0) (< i 3) (def i (+ i 1))] (let))", "(for L: [(def i 0) (< i 3) (cond)] 1)",
				"{for i := 0; i < 3; (let) { 1 }}", "(defn brk [] (break))", "(continue L:)", "(range k v [1 2] (let))", "(defmac bad [] ^(~(let))) (bad)", "(package \"pk\" (let))", "(func bad [] [] (cond))"}[r.N(22)]
		default:
			g := &lang.G{R: core.NewRng(c.Seed, "C04h", i, k+1), C: lang.Cfg{Depth: 3, Pool: []string{"a", "b", "c"}, Data: true, HigherOrder: true, Variadic: true, Recursion: true, TrOneIn: 4}}
			t = lang.Plain.Program(g.Program())
		}
		t = strings.TrimSpace(t) + "\n"
		o := s.Eval(t, 150000)
		res.Evals++
		res.Ev("idle_history_steps", 1)
		hist = append(hist, t)
		if len(hist) > 6 {
			hist = hist[1:]
		}
		if o.Panic != "" {
			res.Violate("escaped-panic:"+o.Site, o.Panic, strings.Join(hist, ""))
			return res
		}
		if o.Err != nil {
			res.Ev("history_failed_evaluations", 1)
		}
		d := sut.DepthsOf(s.Env)
		if !atRest(d) || d.Data != 0 {
			what := "successful"
			if o.Err != nil {
				what = "failed"
			}
			res.Violate("idle-interpreter-grows:"+restKind(d), fmt.Sprintf("after evaluation %d of the history (%s) the depth vector is %v instead of data=0 scope=1 addr=0 loop=0; last evaluations shown", k, what, d), strings.Join(hist, ""))
			return res
		}
		if k%10 == 0 {
			c04EmptyProbe(res, s.Env, k, fmt.Sprintf("evaluation %d of a history", k))
			if res.Verdict == core.Violated {
				res.Input = strings.Join(hist, "")
				return res
			}
		}
	}
	_, _, _, _, _, main1 := s.Env.VerifDepths()
	res.Ev("main_buffer_growth_instructions(recorded,not judged)", int64(main1-main0))
	res.Input = fmt.Sprintf("history of %d evaluations; the last ones:\n%s", n, strings.Join(hist, ""))
	res.Hash = core.HashOf(fmt.Sprintf("hist-%d-%d", i, c.Seed))
	return res
}
