package props

import (
	"fmt"
	"strings"

	"github.com/glycerine/zygomys/v9/zygo"
	"zyverif/core"
	"zyverif/lang"
	"zyverif/sut"
)

// C09 — tail calls are free and invisible (DESIGN §4.C09).
//
// Shapes: every composition (to depth 2 quick / 3 thorough) of the tail
// contexts {cond arm 1, cond arm 2, cond default, begin, let, letseq, newScope,
// last of and, last of or} around a self call, times five bodies.

var c09Ctx = []string{"cond1", "cond2", "conddef", "begin", "let", "letseq", "newscope", "and", "or"}

const c09Bodies = 7

func c09Shapes(depth int) [][]string {
	var out [][]string
	var rec func(prefix []string, d int)
	rec = func(prefix []string, d int) {
		if len(prefix) > 0 {
			out = append(out, append([]string{}, prefix...))
		}
		if d == 0 {
			return
		}
		for _, c := range c09Ctx {
			rec(append(prefix, c), d-1)
		}
	}
	rec(nil, depth)
	return out
}

// c09Fn builds (defn f [n acc] pre… (cond (<= n 0) acc CTX[self])).
// wrap=true takes the self call out of tail position with the host identity.
func c09Fn(shape []string, body int, wrap bool, traced bool) *lang.N {
	n, acc := lang.Var("n"), lang.Var("acc")
	var pre []*lang.N
	var accNext *lang.N = lang.Call("+", acc, n)
	switch body {
	case 1: // defines locals
		pre = append(pre, &lang.N{K: "def", S: "x", A: []*lang.N{lang.Call("*", n, lang.Int(2))}}, &lang.N{K: "def", S: "y", A: []*lang.N{lang.Call("-", lang.Var("x"), n)}})
		accNext = lang.Call("+", acc, lang.Var("y"))
	case 2: // opens and closes extra scopes before the call
		pre = append(pre, &lang.N{K: "let", Ps: []string{"p"}, A: []*lang.N{n, &lang.N{K: "newscope", A: []*lang.N{&lang.N{K: "def", S: "q", A: []*lang.N{lang.Var("p")}}, lang.Var("q")}}}},
			&lang.N{K: "for", A: []*lang.N{{K: "def", S: "i", A: []*lang.N{lang.Int(0)}}, lang.Call("<", lang.Var("i"), lang.Int(2)), {K: "def", S: "i", A: []*lang.N{lang.Call("+", lang.Var("i"), lang.Int(1))}}, lang.Var("i")}})
	case 3: // creates closures capturing the parameter and a local; acc is an array
		pre = append(pre, &lang.N{K: "def", S: "x", A: []*lang.N{lang.Call("+", n, lang.Int(100))}})
		accNext = lang.Call("append", acc, &lang.N{K: "fn", A: []*lang.N{lang.Call("+", lang.Call("*", n, lang.Int(1000)), lang.Var("x"))}})
	case 4: // another self call inside an argument of the tail call
		accNext = lang.Call("+", acc, lang.App(lang.Var("f"), lang.Int(0), n))
	case 5: // the argument of the tail call IS a self call (last position of the argument)
		accNext = lang.App(lang.Var("f"), lang.Int(0), lang.Call("+", acc, n))
	case 6: // … below a cond / let inside the argument
		accNext = &lang.N{K: "cond", A: []*lang.N{lang.Call(">", n, lang.Int(0)), &lang.N{K: "let", Ps: []string{"t"}, A: []*lang.N{lang.Call("+", acc, n), lang.App(lang.Var("f"), lang.Int(0), lang.Var("t"))}}, acc}}
	}
	if traced {
		pre = append([]*lang.N{{K: "tr", I: 1, A: []*lang.N{n}}}, pre...)
	}
	var self *lang.N = lang.App(lang.Var("f"), lang.Call("-", n, lang.Int(1)), accNext)
	if wrap {
		self = &lang.N{K: "idw", A: []*lang.N{self}}
	}
	cur := self
	for i := len(shape) - 1; i >= 0; i-- {
		switch shape[i] {
		case "cond1":
			cur = &lang.N{K: "cond", A: []*lang.N{lang.Call(">", n, lang.Int(-1)), cur, lang.Int(-5)}}
		case "cond2":
			cur = &lang.N{K: "cond", A: []*lang.N{lang.Call("<", n, lang.Int(-1)), lang.Int(-6), lang.Call(">", n, lang.Int(-1)), cur, lang.Int(-5)}}
		case "conddef":
			cur = &lang.N{K: "cond", A: []*lang.N{lang.Call("<", n, lang.Int(-1)), lang.Int(-6), cur}}
		case "begin":
			cur = &lang.N{K: "begin", A: []*lang.N{lang.Int(7), cur}}
		case "let":
			cur = &lang.N{K: "let", Ps: []string{fmt.Sprintf("v%d", i)}, A: []*lang.N{lang.Call("+", n, lang.Int(int64(i))), lang.Int(3), cur}}
		case "letseq":
			cur = &lang.N{K: "letseq", Ps: []string{fmt.Sprintf("w%d", i), fmt.Sprintf("z%d", i)}, A: []*lang.N{n, lang.Var(fmt.Sprintf("w%d", i)), cur}}
		case "newscope":
			cur = &lang.N{K: "newscope", A: []*lang.N{&lang.N{K: "def", S: fmt.Sprintf("s%d", i), A: []*lang.N{n}}, cur}}
		case "and":
			cur = &lang.N{K: "and", A: []*lang.N{lang.Int(1), lang.Call(">", n, lang.Int(-1)), cur}}
		case "or":
			cur = &lang.N{K: "or", A: []*lang.N{lang.Int(0), lang.Call("<", n, lang.Int(-1)), cur}}
		}
	}
	bodyForms := append(pre, &lang.N{K: "cond", A: []*lang.N{lang.Call("<=", n, lang.Int(0)), acc, cur}})
	return &lang.N{K: "defn", S: "f", Ps: []string{"n", "acc"}, A: bodyForms}
}

func c09Call(body int, n int64) []*lang.N {
	if body == 3 {
		// call every accumulated closure: what closures of earlier iterations observe
		return []*lang.N{lang.Call("map", &lang.N{K: "fn", Ps: []string{"g"}, A: []*lang.N{lang.App(lang.Var("g"))}}, lang.App(lang.Var("f"), lang.Int(n), &lang.N{K: "arr"}))}
	}
	return []*lang.N{lang.App(lang.Var("f"), lang.Int(n), lang.Int(0))}
}

func init() {
	core.Register(&core.Prop{
		ID:    "C09",
		Level: "exploration",
		Rule: "every composition to depth 2 (quick, 90 shapes) / 3 (thorough, 819 shapes) of the nine tail contexts {cond arm 1, cond arm 2, cond default, begin, let, letseq, newScope, last of and, last of or} around a self call, times seven bodies (nothing; defines locals; opens/closes scopes and a loop before the call; accumulates closures capturing the parameter and a local; another self call inside an argument of the tail call; the argument itself being a self call; the same below cond/let inside the argument). " +
			"(a) space: each shape is run at depths 0,1,10,30,100,300,1000 (10^4 for every ninth case in quick and every third in thorough; thorough 10^5 for every 27th case and 10^6 for every 360th, the latter without the reference comparison; the closure-accumulating body up to 300) while the step hook samples the high-water marks of the data/scope/address/loop stacks; they must be identical for all n>=10 and the run must finish within a step budget linear in n. " +
			"(b) transparency: value, effect trace and (closure body) the values obtained by calling every accumulated closure equal those of the de-optimised twin (self call wrapped in a host identity call, so not in tail position) on the real VM for n<=100, and those of the reference evaluator (which has no tail calls) for all n. (c) non-tail contexts: 34 forms in which more work follows the self call (array/list/hash/template construction, assert, arithmetic, tests, initializers, assignments, loop bodies, non-final operands) and two wrong-arity self calls, each below every tail context: value/error-ness, trace and rest state must equal those of the same function with the self call wrapped in a host identity call. (d) 30 tail-recursive functions with unusual signatures and bodies (variadic with zero / one / several / alternating extras, zero parameters driven by globals, body-level def locals captured by closures or re-defined with another type, lazy formals in any position, typed func declarations, return, package members, loops and nested scopes before the call, a wrong-arity branch, the tail position reached through user macros, the function defined again with another parameter list or other lazy positions by a later evaluation): same twin oracle at depths 0-6, rest state, and equal high-water marks at depths 30 and 300. non-trivial = every (shape, body) pair (distinct by construction)",
		Assumptions: []string{
			"constant space is checked as equality of stack high-water marks over the explored depths, not for all depths",
			"heap growth is not judged (the closure-accumulating body grows its accumulator by design)",
		},
		NCases:       func(c *core.Ctx) int { return len(c09Shapes(thorN(c, 2, 3)))*c09Bodies + c09NonTailCases() },
		Chunk:        15,
		Exhaustive:   func(c *core.Ctx) bool { return true },
		MustSee:      []string{"depth_runs", "twin_comparisons", "reference_comparisons", "highwater_samples", "non_tail_contexts", "signature_shapes"},
		CaseTimeoutS: 120,
		Run:          c09Run,
	})
}

// Non-tail contexts: forms in which a self call is followed by more work (the array is
// built, the value is tested, spliced, added to ...). X marks the self call.
var c09NonTail = []string{
	"[X]", "[1 X]", "[X 1]", "(begin [X])", "(assert X)", "^(a ~X)", "^[1 ~X]", "^(a ~@(list X))", "(hash a: X)", "(list X 2)", "(not X)", "(+ 1 X)",
	"(str X)", "(let [q X] q)", "(letseq [p 1 q X] q)", "(begin (x9 = X) x9)", "(begin (mdef u9 v9 (list X 2)) u9)", "(and X 1)", "(or X 1)", "(cond X 1 2)",
	"(begin (for [(def i 0) (< i 1) (def i (+ i 1))] X) 4)", "(newScope X 1)", "(begin X 1)", "(aget [X] 0)", "(first (list X))", "((fn [z] z) X)", "(apply + [X 1])",
	"{1 + X}", "(len [X X])", "(begin (def d9 X) d9)", "(begin (set n X) n)", "(* 2 (+ 1 X))", "(list (list X))", "(cond (== 1 (len [X])) 5 6)",
}

// self calls: the well-formed one and two with the wrong number of arguments (must fail, in both variants)
var c09Self = []string{"(f (- n 1))", "(f (- n 1) 7)", "(f)"}

func c09NonTailCases() int {
	return (len(c09NonTail)+len(c09Self)-1)*(len(c09Ctx)+1) + len(c09Sig)
}

// Signature family: tail-recursive functions with unusual signatures and bodies. @…@ marks the
// tail self call (the twin wraps it in the host identity call); N is replaced by the depth.
var c09Sig = []struct{ def, call string }{
	{"(defn f [n & r] (tr 1 n) (cond (<= n 0) r @(f (- n 1))@))", "(f N)"},
	{"(defn f [n & r] (tr 1 (len r)) (cond (<= n 0) r @(f (- n 1) n)@))", "(f N)"},
	{"(defn f [n & r] (cond (<= n 0) r @(f (- n 1) n (* n 2))@))", "(f N 9)"},
	{"(defn f [n & r] (cond (<= n 0) (len r) (== 0 (mod n 2)) @(f (- n 1))@ @(f (- n 1) 1 2)@))", "(f N 7 8 9)"},
	{"(defn f [n a & r] (cond (<= n 0) (list a r) @(f (- n 1) (+ a n))@))", "(f N 0)"},
	{"(def k N) (defn f [& r] (set k (- k 1)) (cond (<= k 0) r @(f)@))", "(f 4 5)"},
	{"(def k N) (defn f [& r] (set k (- k 1)) (cond (<= k 0) r @(f k k)@))", "(f)"},
	{"(def k N) (def acc []) (defn f [] (def loc (* k 10)) (set acc (append acc (fn [] loc))) (set k (- k 1)) (cond (<= k 0) acc @(f)@))", "(map (fn [g] (g)) (f))"},
	{"(def k N) (defn f [] (def x (cond (== 0 (mod k 2)) \"s\" 5)) (set k (- k 1)) (cond (<= k 0) x @(f)@))", "(f)"},
	{"(def k N) (def t 0) (defn f [] (tr 1 k) (set t (+ t k)) (set k (- k 1)) (cond (<= k 0) t @(f)@))", "(f)"},
	{"(defn f [n acc] (def loc (* n 10)) (cond (<= n 0) acc @(f (- n 1) (append acc (fn [] (+ loc n))))@))", "(map (fn [g] (g)) (f N []))"},
	{"(defn f [n] (def x (cond (== 0 (mod n 2)) \"s\" 5)) (cond (<= n 0) x @(f (- n 1))@))", "(f N)"},
	{"(defn f [n #y] (cond (<= n 0) 0 @(f (- n 1) (tr 5 n))@))", "(f N (tr 6 1))"},
	{"(defn f [n #y] (cond (<= n 0) (force #y) @(f (- n 1) (tr 5 n))@))", "(f N (tr 6 1))"},
	{"(defn f [#y n] (cond (<= n 0) 0 @(f (tr 5 n) (- n 1))@))", "(f (tr 6 1) N)"},
	{"(func g [n:int64 a:int64] [r:int64] (cond (== n 0) a @(g (- n 1) (+ a n))@))", "(g N 0)"},
	{"(func g [n:int64 #y:int64] [r:int64] (cond (== n 0) 0 @(g (- n 1) (tr 5 n))@))", "(g N (tr 6 1))"},
	{"(func g [n:int64] [r:int64] (tr 1 n) (cond (== n 0) 0 (return @(g (- n 1))@)))", "(g N)"},
	{"(defn f [n] (let [m (- n 1)] (letseq [p m q p] (newScope (cond (<= n 0) 0 @(f q)@)))))", "(f N)"},
	{"(defn f [n] (for [(def i 0) (< i 2) (def i (+ i 1))] (tr 2 i)) (cond (<= n 0) 0 @(f (- n 1))@))", "(f N)"},
	{"(defn f [n h] (hset h n n) (cond (<= n 0) (len (keys h)) @(f (- n 1) h)@))", "(f N (hash))"},
	{"(def p (package \"p\" (defn F [n a] (cond (<= n 0) a @(F (- n 1) (+ a n))@)))) ", "(p.F N 0)"},
	{"(defn f [n] (cond (<= n 0) 0 (> n 1000000) @(f)@ @(f (- n 1))@))", "(f N)"},
	// typed funcs: an argument of the wrong type in the tail self call; arguments passed by name, in either order
	{"(func g [n:int64 s:string] [r:string] (cond (== n 0) s @(g (- n 1) (cond (== n 2) 5 \"b\"))@))", "(g N \"a\")"},
	{"(func g [n:int64 a:int64] [r:int64] (cond (== n 0) a @(g (- n 1) (cond (== n 3) 1.5 (+ a n)))@))", "(g N 0)"},
	{"(func g [n:int64 a:int64] [r:int64] (cond (== n 0) a @(g n:(- n 1) a:(+ a n))@))", "(g n:N a:0)"},
	{"(func g [n:int64 a:int64] [r:int64] (tr 1 n) (cond (== n 0) a @(g a:(+ a (tr 2 n)) n:(- n (tr 3 1)))@))", "(g N 0)"},
	{"(func g [n:int64 a:int64] [r:int64] (cond (== n 0) a @(g n:(- n 1) b:(+ a n))@))", "(g N 0)"},
	// the tail position is reached through a user macro
	{"(defmac ifelse9 [c a b] ^(cond ~c ~a ~b)) (defn f [n a] (ifelse9 (<= n 0) a @(f (- n 1) (+ a n))@))", "(f N 0)"},
	{"(defmac unless9 [c b1 b2] ^(cond ~c nil (begin ~b1 ~b2))) (defn f [n a] (let [m (- n 1)] (unless9 (< n 0) (tr 1 n) (cond (<= n 0) a @(f m (+ a n))@))))", "(f N 0)"},
	{"(defmac my-and9 [a b] ^(and ~a ~b)) (defn f [n] (cond (<= n 0) 7 (my-and9 true @(f (- n 1))@)))", "(f N)"},
	// the function is defined again, with another parameter list, by a later evaluation (|| separates evaluations)
	{"(defn f [n] (* n 2)) (f 1) || (defn f [n acc] (cond (<= n 0) acc @(f (- n 1) (+ acc n))@))", "(f N 0)"},
	{"(defn f [#a n] n) (f 1 2) || (defn f [a n] (cond (<= n 0) a @(f (+ a 1) (- n 1))@))", "(f 0 N)"},
	{"(defn f [a n] n) (f 1 2) || (defn f [#a n] (cond (<= n 0) 0 @(f (tr 5 n) (- n 1))@))", "(f (tr 6 1) N)"},
	{"(defn f [n & r] (len r)) (f 1 2) || (defn f [n] (cond (<= n 0) 0 @(f (- n 1))@))", "(f N)"},
	// the old function is still reachable through an alias after its name was bound to something else: its
	// self call is a call of the NAME, as it is without the optimisation
	{"(defn f [n] (cond (<= n 0) 0 @(f (- n 1))@)) (def g f) || (defn f [n] (+ 990 n))", "(g N)"},
	{"(defn f [n a] (tr 1 n) (cond (<= n 0) a @(f (- n 1) (+ a 1))@)) (def g f) || (defn f [n a] (tr 2 n) (list n a))", "(g N 0)"},
	{"(defn f [n] (cond (<= n 0) 0 @(f (- n 1))@)) (def g f) || (def f 5)", "(g N)"},
	{"(defn f [n] (cond (<= n 0) 0 @(f (- n 1))@)) (def g f) || (defn f [n] (cond (<= n 0) 1000 @(f (- n 1))@))", "(list (g N) (f N))"},
	{"(defn f [n] (cond (<= n 0) 0 @(f (- n 1))@)) (def g f) (def hh (hash k: f))", "(list (g N) ((hget hh k:) N) (apply f [N]) (map f [N 1]))"},
}

// c09EvalParts evaluates the parts of a text separated by "||" one after the other on the same
// interpreter (a definition made by an earlier evaluation, then a new one) and returns the last outcome.
func c09EvalParts(s *SutRun, text string, budget int64) *sut.Outcome {
	var o *sut.Outcome
	for _, part := range strings.Split(text, "||") {
		o = s.Eval(strings.TrimSpace(part)+"\n", budget)
	}
	return o
}

func c09SigRun(c *core.Ctx, k int) *core.Result {
	t := c09Sig[k]
	opt := strings.ReplaceAll(t.def, "@", "") + "\n"
	twin := t.def
	for strings.Contains(twin, "@") { // @X@ -> (idw X)
		twin = strings.Replace(twin, "@", "(idw ", 1)
		twin = strings.Replace(twin, "@", ")", 1)
	}
	twin += "\n"
	res := &core.Result{Input: opt + t.call, Nontrivial: true}
	res.Hash = core.HashOf(res.Input)
	outcome := func(o *sut.Outcome) string {
		if o.Err != nil || o.Budget {
			return "ERR"
		}
		return OutStr(o)
	}
	for _, n := range []int{0, 1, 2, 3, 6} {
		nn := fmt.Sprint(n)
		a, b := NewSutRun(true), NewSutRun(true)
		oa := c09EvalParts(a, strings.ReplaceAll(opt+t.call, "N", nn), 400000)
		ob := c09EvalParts(b, strings.ReplaceAll(twin+t.call, "N", nn), 400000)
		res.Evals += 2
		res.Ev("signature_shapes", 1)
		if oa.Panic != "" {
			res.Violate("escaped-panic:"+oa.Site, oa.Panic, res.Input)
			return res
		}
		if ob.Budget || ob.Panic != "" {
			res.Verdict, res.Key = core.Inconclusive, "twin-did-not-finish"
			return res
		}
		if outcome(oa) != outcome(ob) || strings.Join(a.Trace, ",") != strings.Join(b.Trace, ",") {
			res.Violate("tail-call-changes-behaviour", fmt.Sprintf("N=%d: the function gives %s trace %v; with the self call wrapped in a host identity call it gives %s trace %v", n, outcome(oa), a.Trace, outcome(ob), b.Trace), strings.ReplaceAll(opt+t.call, "N", nn))
			return res
		}
		if d := sut.DepthsOf(a.Env); oa.Err == nil && (!atRest(d) || d.Data != 0) {
			res.Violate("not-at-rest-after-tail-recursion", fmt.Sprintf("N=%d: %v", n, d), strings.ReplaceAll(opt+t.call, "N", nn))
			return res
		}
	}
	// space: high-water marks at N=30 and N=300 must agree (the accumulating shapes grow their data by design: skipped)
	if !strings.Contains(t.def, "append") && !strings.Contains(t.def, "hset") {
		var marks [2][4]int
		for j, n := range []int{30, 300} {
			s := NewSutRun(true)
			zygo.Verif.Watch = s.Env
			o := c09EvalParts(s, strings.ReplaceAll(opt+t.call, "N", fmt.Sprint(n)), 3000000)
			zygo.Verif.Watch = nil
			marks[j] = [4]int{zygo.Verif.HiData, zygo.Verif.HiScope, zygo.Verif.HiAddr, zygo.Verif.HiLoop}
			res.Evals++
			if o.Budget || o.Panic != "" {
				res.Violate("deep-tail-recursion-did-not-complete", fmt.Sprintf("N=%d: %s", n, OutStr(o)), res.Input)
				return res
			}
		}
		if marks[0] != marks[1] && !strings.Contains(t.def, "& r] (cond (<= n 0) r @(f (- n 1) n") {
			res.Violate("stack-grows-with-depth", fmt.Sprintf("high-water marks (data,scope,addr,loop) at N=30: %v, at N=300: %v", marks[0], marks[1]), res.Input)
		}
		res.Ev("highwater_samples", 2)
	}
	return res
}

// c09NonTailRun: a self call inside a form that still has work to do after it must not be
// compiled as a jump, whatever tail context surrounds that form. Oracle: the same function with
// the self call wrapped in a host identity call (certainly not a tail call), on the real VM.
func c09NonTailRun(c *core.Ctx, k int) *core.Result {
	nctx := len(c09Ctx) + 1
	w, ctx := k/nctx, k%nctx
	wrapper, self := "X", c09Self[0]
	if w < len(c09NonTail) {
		wrapper = c09NonTail[w]
	} else {
		self = c09Self[w-len(c09NonTail)+1]
	}
	shape := func(inner string) string {
		switch ctx {
		case 1:
			return "(cond (> n -1) " + inner + " -5)"
		case 2:
			return "(cond (< n -1) -6 (> n -1) " + inner + " -5)"
		case 3:
			return "(cond (< n -1) -6 " + inner + ")"
		case 4:
			return "(begin 7 " + inner + ")"
		case 5:
			return "(let [v9 n] 3 " + inner + ")"
		case 6:
			return "(letseq [w9 n z9 w9] " + inner + ")"
		case 7:
			return "(newScope (def s9 n) " + inner + ")"
		case 8:
			return "(and 1 (> n -1) " + inner + ")"
		case 9:
			return "(or 0 (< n -1) " + inner + ")"
		}
		return inner
	}
	build := func(selfcall string) string {
		return "(defn f [n] (tr 1 n) (cond (<= n 0) 1 " + shape(strings.ReplaceAll(wrapper, "X", selfcall)) + "))\n"
	}
	opt, twin := build(self), build("(idw "+self+")")
	res := &core.Result{Input: opt, Nontrivial: true}
	res.Hash = core.HashOf(opt)
	for _, n := range []int{0, 1, 3} {
		call := fmt.Sprintf("(f %d)\n", n)
		a, b := NewSutRun(true), NewSutRun(true)
		oa := a.Eval(opt+call, 200000)
		ob := b.Eval(twin+call, 200000)
		res.Evals += 2
		res.Ev("non_tail_contexts", 1)
		if oa.Panic != "" {
			res.Violate("escaped-panic:"+oa.Site, oa.Panic, opt+call)
			return res
		}
		if ob.Budget || ob.Panic != "" {
			res.Verdict, res.Key = core.Inconclusive, "twin-did-not-finish"
			return res
		}
		outcome := func(o *sut.Outcome) string { // errors are compared by error-ness, never by text
			if o.Err != nil || o.Budget {
				return "ERR"
			}
			return OutStr(o)
		}
		if outcome(oa) != outcome(ob) || strings.Join(a.Trace, ",") != strings.Join(b.Trace, ",") {
			res.Violate("non-tail-context-compiled-as-tail-call", fmt.Sprintf("(f %d): the function gives %s trace %v; with the self call wrapped in a host identity call it gives %s trace %v", n, OutStr(oa), a.Trace, OutStr(ob), b.Trace), opt+call)
			return res
		}
		if d := sut.DepthsOf(a.Env); oa.Err == nil && (!atRest(d) || d.Data != 0) {
			res.Violate("not-at-rest-after-tail-recursion", fmt.Sprintf("(f %d): %v", n, d), opt+call)
			return res
		}
	}
	return res
}

func c09Run(c *core.Ctx, i int) *core.Result {
	shapes := c09Shapes(thorN(c, 2, 3))
	if i >= len(shapes)*c09Bodies {
		k := i - len(shapes)*c09Bodies
		if nt := c09NonTailCases() - len(c09Sig); k >= nt {
			return c09SigRun(c, k-nt)
		}
		return c09NonTailRun(c, k)
	}
	shape := shapes[i/c09Bodies]
	body := i % c09Bodies
	fn := c09Fn(shape, body, false, false)
	text := lang.Plain.Program([]*lang.N{fn})
	res := &core.Result{Input: fmt.Sprintf("shape=%s body=%d\n%s", strings.Join(shape, ">"), body, text), Nontrivial: true}
	res.Hash = core.HashOf(res.Input)
	depths := []int64{0, 1, 10, 30, 100, 300, 1000}
	if (c.Thor && i%3 == 0) || i%9 == 0 {
		depths = append(depths, 10000)
	}
	if c.Thor && i%27 == 0 {
		depths = append(depths, 100000)
		if i%360 == 0 && body != 3 && body != 4 {
			depths = append(depths, 1000000)
		}
	}
	type hw struct{ d, s, a, l int }
	var marks []hw
	var markN []int64
	for _, n := range depths {
		if body == 3 && n > 300 {
			// creating n closures that each snapshot their scopes is honestly
			// expensive in this VM (≈ n² work); the closure body stops at 300
			continue
		}
		traced := n <= 100
		tfn := c09Fn(shape, body, false, traced)
		prog := append([]*lang.N{tfn}, c09Call(body, n)...)
		ptext := lang.Plain.Program(prog)
		in := fmt.Sprintf("shape=%s body=%d n=%d\n%s", strings.Join(shape, ">"), body, n, ptext)
		// reference (plain Go recursion: it cannot go a million activations deep itself, so
		// at n > 10^5 only space, rest state and completion are judged)
		useRef := n <= 100000
		ref := &lang.R{MaxSteps: 80000000}
		var rv lang.V
		var rerr *lang.ErrV
		if useRef {
			rv, rerr = ref.Run(prog, lang.NewEnv(nil))
		}
		// optimised
		s := NewSutRun(false)
		zygo.Verif.Watch = s.Env
		o := s.Eval(ptext, 400*n+1000000)
		zygo.Verif.Watch = nil
		m := hw{zygo.Verif.HiData, zygo.Verif.HiScope, zygo.Verif.HiAddr, zygo.Verif.HiLoop}
		res.Evals++
		res.Ev("depth_runs", 1)
		res.Ev("vm_steps", o.Steps)
		if !useRef {
			if o.Err != nil || o.Panic != "" || o.Budget {
				res.Violate("deep-tail-recursion-did-not-complete", fmt.Sprintf("n=%d: %s", n, OutStr(o)), in)
				continue
			}
		} else if key, detail := CompareRun(rv, rerr, ref.Trace, o, s.Trace); key != "" {
			res.Violate("vs-reference:"+key, detail, in)
			continue
		} else {
			res.Ev("reference_comparisons", 1)
		}
		if d := sut.DepthsOf(s.Env); !atRest(d) || d.Data != 0 {
			res.Violate("not-at-rest-after-tail-recursion", fmt.Sprintf("n=%d: %v", n, d), in)
		}
		if n >= 10 {
			marks = append(marks, m)
			markN = append(markN, n)
			res.Ev("highwater_samples", 1)
		}
		// de-optimised twin on the real VM
		if n <= 300 {
			wfn := c09Fn(shape, body, true, traced)
			wtext := lang.Plain.Program(append([]*lang.N{wfn}, c09Call(body, n)...))
			s2 := NewSutRun(false)
			o2 := s2.Eval(wtext, 0)
			res.Evals++
			if OutStr(o) != OutStr(o2) || strings.Join(s.Trace, ",") != strings.Join(s2.Trace, ",") {
				res.Violate("vs-deoptimised-twin", fmt.Sprintf("n=%d: optimised gives %s trace %v; the same function with the self call out of tail position gives %s trace %v", n, OutStr(o), core.Trunc(fmt.Sprint(s.Trace), 300), OutStr(o2), core.Trunc(fmt.Sprint(s2.Trace), 300)), in)
			}
			res.Ev("twin_comparisons", 1)
		}
	}
	for k := 1; k < len(marks); k++ {
		if marks[k] != marks[0] {
			res.Violate("stack-grows-with-depth", fmt.Sprintf("high-water marks (data,scope,addr,loop) at n=%d: %v, at n=%d: %v", markN[0], marks[0], markN[k], marks[k]),
				fmt.Sprintf("shape=%s body=%d\n%s", strings.Join(shape, ">"), body, text))
			break
		}
	}
	return res
}
