// Package props holds one file per property; each registers itself in init().
package props
