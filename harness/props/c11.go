package props

import (
	"bytes"
	"encoding/json"
	"fmt"
	"math"
	"strings"

	"github.com/glycerine/zygomys/v9/zygo"
	"zyverif/core"
	"zyverif/sut"
)

// C11 — JSON and msgpack encodings round-trip and are well-formed (DESIGN §4.C11).

type c11gen struct {
	r     *core.Rng
	env   *zygo.Zlisp
	types []string
	nodes int
	made  []zygo.Sexp // containers built so far: reused now and then, so one object sits at several positions
}

func (g *c11gen) str() string {
	if g.r.N(25) == 0 { // strings that look like other kinds of data must stay strings
		return []string{"2015-03-04T01:02:03Z", "2015-03-04T01:02:03.000000001+01:00", "12", "-1.5e3", "true", "nil", "null", "[1 2]", "{\"a\":1}", "0x1F", "Atype", "zKeyOrder", "50% off %s %d", "NaN"}[g.r.N(14)]
	}
	if g.r.N(20) == 0 { // the encoders' own punctuation inside a string is content
		pool := []string{", ]", ", }", "a, ]b", "x, }y", "\", \"", "\":\"", "\": ", "{\"Atype\":\"x\"}", "[, ]", "}, {", ",]", ",}", "[]", "{}", " , ", "], [", "\"}", "zKeyOrder\":[", "\\\", \\\""}
		return pool[g.r.N(len(pool))]
	}
	n := g.r.N(6)
	var b strings.Builder
	for i := 0; i < n; i++ {
		if g.r.N(3) == 0 {
			b.WriteRune(rune('a' + g.r.N(26)))
			continue
		}
		r := c12Runes[g.r.N(len(c12Runes))]
		if r >= 0xd800 && r <= 0xdfff {
			r = 'x'
		}
		b.WriteRune(r)
	}
	return b.String()
}

var c11Ints = []int64{0, 1, -1, 42, 1 << 53, 1<<53 + 1, -(1 << 53) - 1, math.MaxInt64, math.MinInt64, 1000000}
var c11Floats = []float64{0.5, -2.5, 1e-7, 1e21, 1e22, 123456.789, 2.0, -0.25, 1e300, 5e-324, 3.0e-4, 1.0 / 3}

func (g *c11gen) scalar() zygo.Sexp {
	switch g.r.N(6) {
	case 0:
		return &zygo.SexpInt{Val: c11Ints[g.r.N(len(c11Ints))]}
	case 1:
		return &zygo.SexpFloat{Val: c11Floats[g.r.N(len(c11Floats))]}
	case 2:
		return &zygo.SexpBool{Val: g.r.Bool()}
	case 3:
		return zygo.SexpNull
	case 4:
		return &zygo.SexpInt{Val: int64(g.r.U64() >> uint(g.r.N(64)))}
	}
	return &zygo.SexpStr{S: g.str()}
}

var c11Keys = []string{"a", "b", "name", "Zz", "k2", "id", "x_y", "zKey", "Atyp", "last"}

func (g *c11gen) value(d int) zygo.Sexp {
	v := g.value0(d)
	switch v.(type) {
	case *zygo.SexpArray, *zygo.SexpHash:
		g.made = append(g.made, v)
	}
	return v
}

func (g *c11gen) value0(d int) zygo.Sexp {
	g.nodes++
	if len(g.made) > 0 && g.r.N(8) == 0 {
		// the very same array / hash / record object again (a DAG, never a cycle: it is complete already)
		return g.made[g.r.N(len(g.made))]
	}
	if d <= 0 || g.nodes > 40 || g.r.N(3) == 0 {
		return g.scalar()
	}
	switch g.r.N(3) {
	case 0:
		n := g.r.N(4)
		arr := make([]zygo.Sexp, 0, n)
		for i := 0; i < n; i++ {
			arr = append(arr, g.value(d-1))
		}
		return &zygo.SexpArray{Val: arr, Env: g.env}
	case 1:
		return g.hash(d, "hash")
	}
	return g.hash(d, g.types[g.r.N(len(g.types))])
}

func (g *c11gen) hash(d int, typ string) *zygo.SexpHash {
	h, err := zygo.MakeHash(nil, typ, g.env)
	if err != nil {
		panic(err)
	}
	n := g.r.N(5)
	used := map[string]bool{}
	for i := 0; i < n; i++ {
		k := c11Keys[g.r.N(len(c11Keys))]
		if g.r.N(150) == 0 {
			k = []string{"Atype", "zKeyOrder"}[g.r.N(2)]
			c11UsedReserved = true
		}
		if used[k] {
			continue
		}
		used[k] = true
		h.HashSet(g.env.MakeSymbol(k), g.value(d-1))
	}
	return h
}

// c11Mutate changes one container nested inside v in place (a new or replaced member of a nested
// hash, a replaced element of a nested array) and reports whether it found one.
func c11Mutate(g *c11gen, v zygo.Sexp) bool {
	var kids []zygo.Sexp
	switch x := v.(type) {
	case *zygo.SexpHash:
		for _, k := range x.KeyOrder {
			if kid, err := x.HashGet(g.env, k); err == nil {
				kids = append(kids, kid)
			}
		}
	case *zygo.SexpArray:
		kids = x.Val
	}
	for _, kid := range kids {
		if kid == v {
			continue
		}
		switch y := kid.(type) {
		case *zygo.SexpHash:
			key := g.env.MakeSymbol("k2")
			if g.r.N(2) == 0 && len(y.KeyOrder) > 0 {
				key = y.KeyOrder[0].(*zygo.SexpSymbol)
			}
			if err := y.HashSet(key, &zygo.SexpStr{S: "changed in place"}); err == nil {
				return true
			}
		case *zygo.SexpArray:
			if len(y.Val) > 0 {
				y.Val[0] = &zygo.SexpStr{S: "changed in place"}
				return true
			}
		}
	}
	return false
}

// structural equality: numbers by value, record type names, key order at every level
func c11Equal(a, b zygo.Sexp, path string) string {
	num := func(v zygo.Sexp) (float64, *int64, bool) {
		switch x := v.(type) {
		case *zygo.SexpInt:
			i := x.Val
			return float64(x.Val), &i, true
		case *zygo.SexpUint64:
			return float64(x.Val), nil, true
		case *zygo.SexpFloat:
			return x.Val, nil, true
		}
		return 0, nil, false
	}
	if fa, ia, ok := num(a); ok {
		fb, ib, ok2 := num(b)
		if !ok2 {
			return fmt.Sprintf("%s: number %s became %T %s", path, a.SexpString(nil), b, b.SexpString(nil))
		}
		if ia != nil && ib != nil {
			if *ia != *ib {
				return fmt.Sprintf("%s: integer %d became %d", path, *ia, *ib)
			}
			return ""
		}
		if ia != nil && math.Abs(fa) > 1<<53 {
			return fmt.Sprintf("%s: integer %d (beyond 2^53) came back as the float %v", path, *ia, fb)
		}
		if fa != fb {
			return fmt.Sprintf("%s: number %v became %v", path, a.SexpString(nil), b.SexpString(nil))
		}
		return ""
	}
	switch x := a.(type) {
	case *zygo.SexpBool:
		if y, ok := b.(*zygo.SexpBool); ok && x.Val == y.Val {
			return ""
		}
	case *zygo.SexpSentinel:
		if b == zygo.SexpNull && x == zygo.SexpNull {
			return ""
		}
	case *zygo.SexpStr:
		if y, ok := b.(*zygo.SexpStr); ok && x.S == y.S {
			return ""
		}
	case *zygo.SexpArray:
		y, ok := b.(*zygo.SexpArray)
		if !ok || len(x.Val) != len(y.Val) {
			break
		}
		for i := range x.Val {
			if d := c11Equal(x.Val[i], y.Val[i], fmt.Sprintf("%s[%d]", path, i)); d != "" {
				return d
			}
		}
		return ""
	case *zygo.SexpHash:
		y, ok := b.(*zygo.SexpHash)
		if !ok {
			break
		}
		if x.TypeName != y.TypeName {
			return fmt.Sprintf("%s: record type name %q became %q", path, x.TypeName, y.TypeName)
		}
		if len(x.KeyOrder) != len(y.KeyOrder) {
			return fmt.Sprintf("%s: %d fields became %d", path, len(x.KeyOrder), len(y.KeyOrder))
		}
		for i, k := range x.KeyOrder {
			ks, ok1 := k.(*zygo.SexpSymbol)
			ys, ok2 := y.KeyOrder[i].(*zygo.SexpSymbol)
			if !ok1 || !ok2 || ks.Name() != ys.Name() {
				return fmt.Sprintf("%s: field order changed at position %d: %s became %s", path, i, k.SexpString(nil), y.KeyOrder[i].SexpString(nil))
			}
			xv, _ := x.HashGet(nil, k)
			yv, err := y.HashGet(nil, y.KeyOrder[i])
			if err != nil {
				return fmt.Sprintf("%s.%s: value lost", path, ks.Name())
			}
			if d := c11Equal(xv, yv, path+"."+ks.Name()); d != "" {
				return d
			}
		}
		return ""
	}
	return fmt.Sprintf("%s: %T %s became %T %s", path, a, core.Trunc(a.SexpString(nil), 80), b, core.Trunc(b.SexpString(nil), 80))
}

// denotation of a value in encoding/json's data model (meta keys interpreted)
func c11Model(v zygo.Sexp) interface{} {
	switch x := v.(type) {
	case *zygo.SexpInt:
		return json.Number(fmt.Sprintf("%d", x.Val))
	case *zygo.SexpFloat:
		return x.Val
	case *zygo.SexpBool:
		return x.Val
	case *zygo.SexpStr:
		return x.S
	case *zygo.SexpSentinel:
		return nil
	case *zygo.SexpArray:
		out := []interface{}{}
		for _, e := range x.Val {
			out = append(out, c11Model(e))
		}
		return out
	case *zygo.SexpHash:
		m := map[string]interface{}{}
		for _, k := range x.KeyOrder {
			val, _ := x.HashGet(nil, k)
			name := ""
			switch kk := k.(type) {
			case *zygo.SexpSymbol:
				name = kk.Name()
			case *zygo.SexpStr:
				name = kk.S
			}
			m[name] = c11Model(val)
		}
		return m
	}
	return fmt.Sprintf("?%T", v)
}

func c11SameData(model, decoded interface{}, path string) string {
	switch m := model.(type) {
	case json.Number:
		d, ok := decoded.(json.Number)
		if !ok {
			return fmt.Sprintf("%s: want number %s, JSON has %T %v", path, m, decoded, decoded)
		}
		if m.String() == d.String() {
			return ""
		}
		mf, _ := m.Float64()
		df, err := d.Float64()
		if err != nil || mf != df || math.Abs(mf) > 1<<53 {
			return fmt.Sprintf("%s: want number %s, JSON has %s", path, m, d)
		}
		return ""
	case float64:
		d, ok := decoded.(json.Number)
		if !ok {
			return fmt.Sprintf("%s: want number %v, JSON has %T %v", path, m, decoded, decoded)
		}
		df, err := d.Float64()
		if err != nil || df != m {
			return fmt.Sprintf("%s: want number %v, JSON has %s", path, m, d)
		}
		return ""
	case bool, string, nil:
		if decoded != model {
			return fmt.Sprintf("%s: want %#v, JSON has %#v", path, model, decoded)
		}
		return ""
	case []interface{}:
		d, ok := decoded.([]interface{})
		if !ok || len(d) != len(m) {
			return fmt.Sprintf("%s: want array of %d, JSON has %T", path, len(m), decoded)
		}
		for i := range m {
			if x := c11SameData(m[i], d[i], fmt.Sprintf("%s[%d]", path, i)); x != "" {
				return x
			}
		}
		return ""
	case map[string]interface{}:
		d, ok := decoded.(map[string]interface{})
		if !ok {
			return fmt.Sprintf("%s: want object, JSON has %T", path, decoded)
		}
		for k, mv := range m {
			dv, present := d[k]
			if !present {
				return fmt.Sprintf("%s: member %q missing from the JSON text", path, k)
			}
			if x := c11SameData(mv, dv, path+"."+k); x != "" {
				return x
			}
		}
		for k := range d {
			if _, ok := m[k]; !ok && k != "Atype" && k != "zKeyOrder" {
				return fmt.Sprintf("%s: JSON text has an extra member %q", path, k)
			}
		}
		return ""
	}
	return fmt.Sprintf("%s: unmodelled %T", path, model)
}

func init() {
	core.Register(&core.Prop{
		ID:    "C11",
		Level: "exploration",
		Rule: "nested values (depth<=5, <=40 nodes) of records (three defmap types and plain hashes, symbol keys), arrays and scalars: strings over 278 runes of every class (ASCII, quote, backslash, every C0 control, DEL, C1, 2/3/4-byte, non-printable BMP and supplementary), integers at the 2^53 and 64-bit limits and random, floats of all magnitudes, bools, nil, empty containers; built through the Go API and bound as a global. " +
			"(unjson (json v)) and (unmsgpack (msgpack v)) must equal v under a structural walker (numbers by value, record type names, key order at every level); the bytes of (json v) must be accepted by encoding/json and denote the same data once the two reserved meta keys are interpreted; the encoded bytes of one value must still decode to it after another value has been encoded in between; for hashes with string keys written as JSON-style source literals only well-formedness and denotation are judged. non-trivial = distinct value with a nested record or a non-ASCII/escaped string",
		Assumptions: []string{
			"an integer beyond 2^53 must come back as the same integer; a float may come back as an int of equal value when it is integral",
			"NaN/Inf floats, uint64 and characters are outside the statement's scalar set and are not generated",
		},
		NCases:  func(c *core.Ctx) int { return thorN(c, 3000, 100000) },
		MustSee: []string{"encodings_after_nested_change", "json_round_trips", "msgpack_round_trips", "json_texts_validated", "string_key_literals", "nested_records"},
		Run:     c11Run,
	})
}

// c11Run wraps the case: a value that uses one of the encodings' own member names (Atype, zKeyOrder) as a
// key is judged like any other, but whatever goes wrong with it is filed under one key of its own
// (a recorded finding: the formats have no escape for these two names).
func c11Run(c *core.Ctx, i int) *core.Result {
	c11UsedReserved = false
	res := c11RunCase(c, i)
	if c11UsedReserved {
		res.Ev("values_with_reserved_member_names", 1)
	}
	if res.Verdict == core.Violated && c11UsedReserved {
		res.Key = "member-named-like-the-encodings-own-metadata"
		res.More = nil
	}
	return res
}

// set by the generator when the case's values use Atype or zKeyOrder as a key (cases run one at a time)
var c11UsedReserved bool

func c11RunCase(c *core.Ctx, i int) *core.Result {
	r := core.NewRng(c.Seed, "C11", i, 0)
	res := &core.Result{}
	s := NewSutRun(true)
	suffix := fmt.Sprintf("x%dq%d", i, c.Seed%1000)
	types := []string{"ranch" + suffix, "barn" + suffix, "cow" + suffix}
	for _, t := range types {
		s.Eval("(defmap "+t+")\n", 0)
	}
	if i%8 == 7 {
		return c11StringKeys(c, i, r, s, res)
	}
	g := &c11gen{r: r, env: s.Env, types: types}
	var v zygo.Sexp
	if g.r.N(6) == 0 {
		v = g.scalar()
	} else {
		v = g.value(1 + i%5)
	}
	printed := ""
	sut.Protect(func() { printed = v.SexpString(nil) })
	res.Input = strings.ReplaceAll(printed, suffix, "")
	res.Hash = core.HashOf(res.Input)
	nested := strings.Count(printed, suffix) >= 2
	if nested {
		res.Ev("nested_records", 1)
	}
	res.Nontrivial = nested || strings.ContainsAny(printed, "\\") || len(printed) != len([]rune(printed))
	s.Env.AddGlobal("vv", v)
	for _, codec := range []string{"json", "msgpack"} {
		o := s.Eval(fmt.Sprintf("(un%s (%s vv))\n", codec, codec), 0)
		res.Evals++
		res.Ev(codec+"_round_trips", 1)
		if o.Panic != "" {
			res.Violate("escaped-panic:"+o.Site, o.Panic, printed)
			return res
		}
		if o.Err != nil {
			res.Violate(codec+"-round-trip-fails", fmt.Sprintf("(un%s (%s v)) fails for v = %s: %s", codec, codec, printed, o.ErrLine()), printed)
			return res
		}
		if d := c11Equal(v, o.Val, "v"); d != "" {
			cls := "value"
			switch {
			case strings.Contains(d, "type name"):
				cls = "type-name"
			case strings.Contains(d, "order") || strings.Contains(d, "fields became"):
				cls = "field-order"
			case strings.Contains(d, "integer") || strings.Contains(d, "number"):
				cls = "number"
			}
			res.Violate(codec+"-round-trip-differs:"+cls, fmt.Sprintf("v = %s came back as %s: %s", printed, core.Trunc(o.Val.SexpString(nil), 300), d), printed)
			return res
		}
	}
	// encoded bytes are values of their own: encoding a second value before decoding the first must not disturb them
	var w zygo.Sexp
	if g.r.N(2) == 0 {
		w = g.scalar()
	} else {
		w = g.value(1 + (i+2)%4)
	}
	s.Env.AddGlobal("ww", w)
	for _, codec := range []string{"json", "msgpack"} {
		o := s.Eval(fmt.Sprintf("(def ea (%s vv)) (def eb (%s ww)) (def ec (%s vv)) (list (un%s ea) (un%s eb) (un%s ec))\n", codec, codec, codec, codec, codec, codec), 0)
		res.Evals++
		res.Ev("interleaved_encodings", 1)
		if o.Panic != "" {
			res.Violate("escaped-panic:"+o.Site, o.Panic, printed)
			return res
		}
		if o.Err != nil {
			res.Violate(codec+"-interleaved-decoding-fails", fmt.Sprintf("encoding v, then w, then decoding the bytes of v fails: %s", o.ErrLine()), printed)
			return res
		}
		parts, _ := zygo.ListToArray(o.Val)
		if len(parts) != 3 {
			res.Violate(codec+"-interleaved-decoding-fails", "unexpected result "+core.Trunc(OutStr(o), 200), printed)
			return res
		}
		for k, want := range []zygo.Sexp{v, w, v} {
			if d := c11Equal(want, parts[k], "v"); d != "" {
				res.Violate(codec+"-bytes-disturbed-by-a-later-encoding", fmt.Sprintf("(def ea (%s v)) (def eb (%s w)) (def ec (%s v)): decoding part %d gives %s: %s", codec, codec, codec, k, core.Trunc(parts[k].SexpString(nil), 200), d), printed)
				return res
			}
		}
	}
	// a container nested inside the value is changed in place: the next encoding must show the change
	if c11Mutate(g, v) {
		mutated := ""
		sut.Protect(func() { mutated = v.SexpString(nil) })
		for _, codec := range []string{"json", "msgpack"} {
			o := s.Eval(fmt.Sprintf("(un%s (%s vv))\n", codec, codec), 0)
			res.Evals++
			res.Ev("encodings_after_nested_change", 1)
			if o.Panic != "" {
				res.Violate("escaped-panic:"+o.Site, o.Panic, printed)
				return res
			}
			if o.Err != nil {
				res.Violate(codec+"-round-trip-fails", fmt.Sprintf("after a nested change, (un%s (%s v)) fails for v = %s: %s", codec, codec, mutated, o.ErrLine()), mutated)
				return res
			}
			if d := c11Equal(v, o.Val, "v"); d != "" {
				res.Violate(codec+"-encoding-stale-after-nested-change", fmt.Sprintf("v = %s was encoded, a container nested in it was changed in place (now %s), and the next encoding decodes to %s: %s", printed, mutated, core.Trunc(o.Val.SexpString(nil), 300), d), printed)
				return res
			}
		}
		printed = mutated
	}
	// well-formedness and denotation of the JSON text
	o := s.Eval("(json vv)\n", 0)
	res.Evals++
	raw, ok := o.Val.(*zygo.SexpRaw)
	if o.Err != nil || !ok {
		res.Violate("json-encode-fails", OutStr(o), printed)
		return res
	}
	c11CheckText(res, raw.Val, v, printed)
	return res
}

func c11CheckText(res *core.Result, text []byte, v zygo.Sexp, printed string) {
	res.Ev("json_texts_validated", 1)
	if !json.Valid(text) {
		res.Violate("json-text-malformed", fmt.Sprintf("(json v) for v = %s is not well-formed JSON: %s", printed, core.Trunc(string(text), 400)), printed)
		return
	}
	dec := json.NewDecoder(bytes.NewReader(text))
	dec.UseNumber()
	var decoded interface{}
	if err := dec.Decode(&decoded); err != nil {
		res.Violate("json-text-malformed", fmt.Sprintf("encoding/json rejects %s: %v", core.Trunc(string(text), 400), err), printed)
		return
	}
	if d := c11SameData(c11Model(v), decoded, "v"); d != "" {
		res.Violate("json-text-denotes-other-data", fmt.Sprintf("(json v) = %s does not denote v = %s: %s", core.Trunc(string(text), 400), printed, d), printed)
	}
}

// hashes with string keys as obtained from JSON-style source literals
func c11StringKeys(c *core.Ctx, i int, r *core.Rng, s *SutRun, res *core.Result) *core.Result {
	words := []string{"alpha", "beta", "k 2", "Zed", "x-y", "id", "with\\\"quote", "tab\\there", "ünï"}
	var lit func(d int) string
	lit = func(d int) string {
		n := 1 + r.N(3)
		var parts []string
		used := map[string]bool{}
		for j := 0; j < n; j++ {
			k := words[r.N(len(words))]
			if used[k] {
				continue
			}
			used[k] = true
			var val string
			switch r.N(6) {
			case 0:
				val = fmt.Sprint(r.N(1000) - 500)
			case 1:
				val = `"` + words[r.N(len(words))] + `"`
			case 2:
				val = "[1 2.5 true nil]"
			case 3:
				val = "nil"
			case 4:
				if d > 0 {
					val = lit(d - 1)
				} else {
					val = "false"
				}
			default:
				val = "[]"
			}
			parts = append(parts, fmt.Sprintf("%q: %s", "", val))
			parts[len(parts)-1] = `"` + k + `": ` + val
		}
		return "{" + strings.Join(parts, " ") + "}"
	}
	src := lit(2)
	res.Input = src
	res.Hash = core.HashOf(src)
	res.Nontrivial = true
	res.Ev("string_key_literals", 1)
	o := s.Eval("(def sk "+src+")\nsk\n", 0)
	res.Evals++
	if o.Panic != "" {
		res.Violate("escaped-panic:"+o.Site, o.Panic, src)
		return res
	}
	if o.Err != nil {
		res.Verdict, res.Key, res.Detail = core.Inconclusive, "string-key-literal-not-evaluable", o.ErrLine()
		return res
	}
	o2 := s.Eval("(json sk)\n", 0)
	raw, ok := o2.Val.(*zygo.SexpRaw)
	if o2.Err != nil || !ok {
		res.Violate("json-encode-fails", OutStr(o2), src)
		return res
	}
	c11CheckText(res, raw.Val, o.Val, src)
	return res
}
