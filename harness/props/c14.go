package props

import (
	"fmt"
	"regexp"
	"strconv"
	"strings"

	"github.com/glycerine/zygomys/v9/zygo"
	"zyverif/core"
)

// C14 — hashes behave as insertion-ordered maps (DESIGN §4.C14).

type c14key struct{ src, canon string }

var c14Keys []c14key

func c14Universe() []c14key {
	if c14Keys != nil {
		return c14Keys
	}
	probe := zygo.NewZlisp()
	v, err := probe.EvalString("(symnum (quote a))\n")
	symnumA := int64(777)
	if err == nil {
		if x, ok := v.(*zygo.SexpInt); ok {
			symnumA = x.Val
		}
	}
	hs, _ := zygo.HashExpression(probe, &zygo.SexpStr{S: "a"})
	c14Keys = []c14key{
		{"(quote a)", "sym:a"}, {"(quote b)", "sym:b"}, {`"a"`, "str:a"}, {`"b"`, "str:b"}, {"1", "int:1"}, {"2", "int:2"}, {"[1]", "int:1"}, {"'x'", "char:x"},
		{strconv.FormatInt(symnumA, 10), "int:" + strconv.FormatInt(symnumA, 10)}, // shares a bucket with symbol a
		{strconv.Itoa(hs), "int:" + strconv.Itoa(hs)},                             // shares a bucket with string "a"
	}
	return c14Keys
}

type c14op struct {
	del bool
	k   int
}

func c14Ops(nkeys int) []c14op {
	var ops []c14op
	for i := 0; i < nkeys; i++ {
		ops = append(ops, c14op{false, i}, c14op{true, i})
	}
	return ops
}

// sequence number -> op sequence over `ops`, lengths 1..maxLen
func c14Seq(idx int, nops int, maxLen int) []int {
	for l := 1; l <= maxLen; l++ {
		n := 1
		for j := 0; j < l; j++ {
			n *= nops
		}
		if idx < n {
			seq := make([]int, l)
			for j := l - 1; j >= 0; j-- {
				seq[j] = idx % nops
				idx /= nops
			}
			return seq
		}
		idx -= n
	}
	return nil
}

func c14Count(nops, maxLen int) int {
	t, n := 0, 1
	for l := 1; l <= maxLen; l++ {
		n *= nops
		t += n
	}
	return t
}

func c14Plan(c *core.Ctx) (full, fullLen, small, smallLen, random int) {
	if c.Thor {
		return c14Count(20, 4), 4, c14Count(12, 5), 5, 20000
	}
	return c14Count(20, 3), 3, c14Count(8, 4), 4, 500
}

func init() {
	core.Register(&core.Prop{
		ID:    "C14",
		Level: "exploration",
		Rule: "operation sequences of (hset h k v) (fresh v each time) and (hdel h k) over a universe of 10 key spellings (symbols a b, strings \"a\" \"b\", ints 1 2, the one-element array [1] (= key 1), char 'x', an int equal to (symnum a) and an int equal to the hash code of \"a\", i.e. unequal keys sharing a bucket): exhaustively all sequences of length <=3 (quick) / <=4 (thorough) over the 20 operations, all sequences of length <=4 / <=5 over a sub-universe, plus 500 / 20000 random sequences of length 30 observed after every step. " +
			"After the last step (every prefix is itself an enumerated sequence) the monitor reads (len h), (keys h), (hpair h i) for every i, (hget h k) and (hget h k dflt) for every k of the universe, (str h), (json h), the range macro and the go-style for k, v := range h, and compares all of them with an ordered-map model (live keys once each in first-insertion order, latest values); (str h) and (json h) must also be exactly those of a hash built afresh from the model's content; the hash shown twice in one value prints and encodes twice; writing into the arrays that (keys h) and (hpair h i) return must not change the hash; copies (derefSet between records, decoding of an encoding, rebuilding through range) must not change when the source is changed afterwards. 60 further histories store values of every kind (nil, empty string, zero, false, empty containers, chars, floats) under symbol, string and integer keys and compare len, keys, str, hpair at every position, hget with and without default and both iterations with the model: a stored nil is a value like any other. Any error or panic text from an observation is a violation. non-trivial = distinct sequence containing a delete of a present key or an update of an existing key",
		Assumptions: []string{
			"key identity follows the language: [k] is k; the universe contains no int equal to a char code and no float keys",
			"(hpair h (len h)) may fail with any error; the JSON text is only checked for the order of the values it lists (well-formedness is C11's subject)",
		},
		NCases: func(c *core.Ctx) int {
			a, _, b, _, r := c14Plan(c)
			return a + b + r + c14CopyCases + c14KindCases
		},
		Exhaustive: func(c *core.Ctx) bool { return true },
		Chunk:      3000,
		MustSee:    []string{"observations", "deletes_of_present_key", "reinserts_after_delete", "bucket_sharing_keys_live", "range_iterations", "value_kind_steps"},
		Run:        c14Run,
	})
}

var c14six = regexp.MustCompile(`\b\d{6}\b`)

// copies: a record copied into another (derefSet / CloneFrom), a hash decoded from the encoding of another, a hash
// rebuilt from (keys) and (hget): later deletions, insertions and updates on the source must not show in the copy
const c14CopyCases = 8

func c14Copy(c *core.Ctx, k int) *core.Result {
	res := &core.Result{Nontrivial: true}
	name := fmt.Sprintf("Rc%dx%d", k, c.Seed%100000)
	setup := []string{
		fmt.Sprintf("(struct %s [(field Name:string) (field Number:int64) (field Tag:string) (field Four:int64)]) (def s (%s Name:\"Rover\" Number:3 Tag:\"x\" Four:4)) (def d (%s Name:\"Other\")) (derefSet (& d) s)", name, name, name),
		"(def s (hash a:1 b:2 c:3 d:4)) (def d (unjson (json s)))",
		"(def s (hash a:1 b:2 c:3 d:4)) (def d (unmsgpack (msgpack s)))",
		"(def s (hash a:1 b:2 c:3 d:4)) (def d (hash)) (range k v s (hset d k v))",
	}[k%4]
	change := []string{"(hdel s (first (keys s)))", "(hdel s (aget (keys s) 1))", "(hset s (aget (keys s) 1) 99)", "(hdel s (aget (keys s) 2)) (hset s zz: 5)"}[(k/4+k)%4]
	text := setup + "\n" + change
	res.Input, res.Hash = text, core.HashOf(text)
	s := NewSutRun(true)
	if o := s.Eval(setup+"\n", 0); o.Err != nil || o.Panic != "" {
		res.Verdict, res.Key, res.Detail = core.Inconclusive, "copy-setup-fails", OutStr(o)
		return res
	}
	view := func() string {
		o := s.Eval("(list (str d) (str (keys d)) (len d) (str (hpair d 0)) (str (hpair d 1)) (raw2str (json d)))\n", 0)
		res.Evals++
		return OutStr(o)
	}
	before := view()
	o := s.Eval(change+"\n", 0)
	res.Evals++
	res.Ev("copy_scenarios", 1)
	if o.Panic != "" {
		res.Violate("escaped-panic:"+o.Site, o.Panic, text)
		return res
	}
	if after := view(); after != before {
		res.Violate("view:copy-changed-by-its-source", fmt.Sprintf("after %s on the source, the copy shows %s; before it showed %s", change, core.Trunc(after, 400), core.Trunc(before, 400)), text)
	}
	return res
}

func c14Run(c *core.Ctx, i int) *core.Result {
	if a, _, b, _, r := c14Plan(c); i >= a+b+r+c14CopyCases {
		return c14Kinds(c, i-(a+b+r+c14CopyCases))
	} else if i >= a+b+r {
		return c14Copy(c, i-(a+b+r))
	}
	keys := c14Universe()
	full, fullLen, small, smallLen, _ := c14Plan(c)
	var seq []c14op
	everyStep := false
	switch {
	case i < full:
		ops := c14Ops(10)
		for _, o := range c14Seq(i, 20, fullLen) {
			seq = append(seq, ops[o])
		}
	case i < full+small:
		nk := 6
		if !c.Thor {
			nk = 4
		}
		// sub-universe chosen to contain the bucket-sharing pairs: a, "a", 1, [1], symnum(a), hash("a")
		sub := []int{0, 2, 4, 6, 8, 9}[:nk]
		ops := c14Ops(nk)
		for _, o := range c14Seq(i-full, 2*nk, smallLen) {
			op := ops[o]
			op.k = sub[op.k]
			seq = append(seq, op)
		}
	default:
		r := core.NewRng(c.Seed, "C14", i, 0)
		ops := c14Ops(10)
		for j := 0; j < 30; j++ {
			seq = append(seq, ops[r.N(len(ops))])
		}
		everyStep = true
	}
	res := &core.Result{}
	s := NewSutRun(true)
	if o := s.Eval("(def h (hash))\n", 0); o.Err != nil || o.Panic != "" {
		res.Violate("setup-failed", OutStr(o), "(def h (hash))")
		return res
	}
	var order []string
	vals := map[string]int{}
	deleted := map[string]bool{}
	val := 100000
	var hist []string
	for step, o := range seq {
		k := keys[o.k]
		var src string
		if o.del {
			src = "(hdel h " + k.src + ")"
			if _, ok := vals[k.canon]; ok {
				res.Ev("deletes_of_present_key", 1)
				res.Nontrivial = true
				delete(vals, k.canon)
				deleted[k.canon] = true
				for x, cn := range order {
					if cn == k.canon {
						order = append(order[:x:x], order[x+1:]...)
						break
					}
				}
			} else {
				res.Ev("deletes_of_missing_key", 1)
			}
		} else {
			val++
			src = fmt.Sprintf("(hset h %s %d)", k.src, val)
			if _, ok := vals[k.canon]; !ok {
				order = append(order, k.canon)
				if deleted[k.canon] {
					res.Ev("reinserts_after_delete", 1)
				}
			} else {
				res.Ev("updates_of_existing_key", 1)
				res.Nontrivial = true
			}
			vals[k.canon] = val
		}
		hist = append(hist, src)
		input := strings.Join(hist, " ")
		oo := s.Eval(src+"\n", 0)
		res.Evals++
		if oo.Panic != "" {
			res.Violate("escaped-panic:"+oo.Site, oo.Panic, input)
			break
		}
		if oo.Err != nil {
			res.Violate("operation-fails", fmt.Sprintf("%s failed: %s", src, oo.ErrLine()), input)
			break
		}
		if !everyStep && step != len(seq)-1 {
			continue
		}
		if !c14Observe(res, s, keys, order, vals, input) {
			break
		}
	}
	res.Input = strings.Join(hist, " ")
	res.Hash = core.HashOf(res.Input)
	return res
}

func c14Observe(res *core.Result, s *SutRun, keys []c14key, order []string, vals map[string]int, input string) bool {
	bad := func(view, detail string) bool {
		res.Violate("view:"+view, detail+fmt.Sprintf("  [model: order %v]", order), input)
		return false
	}
	ev := func(text string) string {
		o := s.Eval(text+"\n", 0)
		res.Evals++
		res.Ev("observations", 1)
		switch {
		case o.Panic != "":
			return "PANIC " + o.Panic
		case o.Err != nil:
			return "ERR " + o.ErrLine()
		case o.Val == nil:
			return "NILVALUE"
		}
		return o.Val.SexpString(nil)
	}
	sharing := 0
	for _, cn := range order {
		if cn == "sym:a" || cn == "str:a" || cn == keys[8].canon || cn == keys[9].canon {
			sharing++
		}
	}
	if sharing >= 2 {
		res.Ev("bucket_sharing_keys_live", 1)
	}
	if got := ev("(len h)"); got != strconv.Itoa(len(order)) {
		return bad("len", fmt.Sprintf("(len h) must be %d, got %s", len(order), core.Trunc(got, 200)))
	}
	var wantVals []string
	for _, cn := range order {
		wantVals = append(wantVals, strconv.Itoa(vals[cn]))
	}
	wantSeq := strings.Join(wantVals, " ")
	// keys
	{
		var wk []string
		for _, cn := range order {
			wk = append(wk, strings.SplitN(cn, ":", 2)[1])
		}
		got := ev("(str (keys h))")
		norm := strings.NewReplacer(`\"`, "", "'", "", `"`, "").Replace(got)
		if norm != "["+strings.Join(wk, " ")+"]" {
			return bad("keys", fmt.Sprintf("(keys h) must list %v, got %s", wk, core.Trunc(got, 200)))
		}
	}
	for x, cn := range order {
		got := ev(fmt.Sprintf("(second (hpair h %d))", x))
		if got != strconv.Itoa(vals[cn]) {
			return bad("hpair", fmt.Sprintf("(hpair h %d) must hold value %d (key %s), got %s", x, vals[cn], cn, core.Trunc(got, 200)))
		}
	}
	if got := ev(fmt.Sprintf("(hpair h %d)", len(order))); !strings.HasPrefix(got, "ERR") {
		return bad("hpair-past-end", fmt.Sprintf("(hpair h %d) on a hash of %d keys must fail, got %s", len(order), len(order), core.Trunc(got, 200)))
	}
	for _, k := range keys {
		want := "-1"
		v, live := vals[k.canon]
		if live {
			want = strconv.Itoa(v)
		}
		if got := ev("(hget h " + k.src + " -1)"); got != want {
			return bad("hget-default", fmt.Sprintf("(hget h %s -1) must be %s, got %s", k.src, want, core.Trunc(got, 200)))
		}
		got := ev("(hget h " + k.src + ")")
		if live && got != want {
			return bad("hget", fmt.Sprintf("(hget h %s) must be %s, got %s", k.src, want, core.Trunc(got, 200)))
		}
		if !live && !strings.HasPrefix(got, "ERR") {
			return bad("hget", fmt.Sprintf("(hget h %s) of an absent key must fail, got %s", k.src, core.Trunc(got, 200)))
		}
	}
	seqOf := func(text string) string { return strings.Join(c14six.FindAllString(text, -1), " ") }
	if got := ev("(str h)"); strings.HasPrefix(got, "ERR") || strings.HasPrefix(got, "PANIC") || seqOf(got) != wantSeq {
		return bad("str", fmt.Sprintf("(str h) must show the values %s in this order, got %s", wantSeq, core.Trunc(got, 300)))
	}
	if got := ev("(raw2str (json h))"); strings.HasPrefix(got, "ERR") || strings.HasPrefix(got, "PANIC") || seqOf(got) != wantSeq {
		return bad("json", fmt.Sprintf("(json h) must list the values %s in this order, got %s", wantSeq, core.Trunc(got, 300)))
	}
	// the printed form and the encoding must be exactly those of a hash built afresh from the model's
	// content (live keys in first-insertion order, latest values): nothing of the history may show
	{
		build := "(def hfresh (hash))"
		for _, cn := range order {
			for _, k := range keys {
				if k.canon == cn {
					build += fmt.Sprintf(" (hset hfresh %s %d)", k.src, vals[cn])
					break
				}
			}
		}
		ev(build)
		if a, b := ev("(str h)"), ev("(str hfresh)"); a != b {
			return bad("str-differs-from-fresh-hash", fmt.Sprintf("(str h) is %s but a hash built afresh with the same content prints as %s", core.Trunc(a, 300), core.Trunc(b, 300)))
		}
		if a, b := ev("(raw2str (json h))"), ev("(raw2str (json hfresh))"); a != b {
			return bad("json-differs-from-fresh-hash", fmt.Sprintf("(json h) is %s but a hash built afresh with the same content encodes as %s", core.Trunc(a, 300), core.Trunc(b, 300)))
		}
	}
	// the hash shown twice in one value, and what the views hand out changed in place: neither may disturb the hash
	{
		one, oneJ := ev("(str h)"), ev("(raw2str (json h))")
		inner := strings.TrimSuffix(strings.TrimPrefix(one, `"`), `"`) // ev shows the string value quoted
		innerJ := strings.TrimSuffix(strings.TrimPrefix(oneJ, `"`), `"`)
		if got := ev("(str [h h])"); got != `"[`+inner+" "+inner+`]"` {
			return bad("str-of-shared-hash", fmt.Sprintf("(str [h h]) must be [%s %s], got %s", inner, inner, core.Trunc(got, 300)))
		}
		if got := ev("(raw2str (json [h h]))"); strings.HasPrefix(got, "ERR") || strings.HasPrefix(got, "PANIC") || strings.Count(got, innerJ) != 2 {
			return bad("json-of-shared-hash", fmt.Sprintf("(json [h h]) must hold the encoding of h twice, got %s", core.Trunc(got, 300)))
		}
		if len(order) > 0 {
			ev("(def ks9 (keys h)) (aset ks9 0 (quote zz9)) (def pr9 (hpair h 0)) (def kl9 (keys h)) (aset kl9 (- (len kl9) 1) 12345)")
			if got := ev("(str h)"); got != one {
				return bad("views-alias-the-hash", fmt.Sprintf("after writing into the arrays returned by (keys h), (str h) changed from %s to %s", core.Trunc(one, 200), core.Trunc(got, 200)))
			}
			if got := ev("(len (keys h))"); got != strconv.Itoa(len(order)) {
				return bad("views-alias-the-hash", fmt.Sprintf("after writing into the arrays returned by (keys h), (keys h) has %s entries", got))
			}
		}
	}
	s.Trace = nil
	if got := ev("(range k v h (tr 1 v))"); strings.HasPrefix(got, "ERR") || strings.HasPrefix(got, "PANIC") || seqOf(strings.Join(s.Trace, " ")) != wantSeq {
		return bad("range-macro", fmt.Sprintf("(range k v h …) must visit the values %s, visited %v (result %s)", wantSeq, s.Trace, core.Trunc(got, 200)))
	}
	s.Trace = nil
	if got := ev("{for k, v := range h { (tr 2 v) }}"); strings.HasPrefix(got, "ERR") || strings.HasPrefix(got, "PANIC") || seqOf(strings.Join(s.Trace, " ")) != wantSeq {
		return bad("range-for", fmt.Sprintf("for k, v := range h must visit the values %s, visited %v (result %s)", wantSeq, s.Trace, core.Trunc(got, 200)))
	}
	res.Ev("range_iterations", 2)
	s.Trace = nil
	return true
}
