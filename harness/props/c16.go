package props

import (
	"fmt"

	"zyverif/core"
	"zyverif/lang"
)

// C16 — lazy parameters (DESIGN §4.C16).

func c16Gen(c *core.Ctx, i int) (*lang.G, []*lang.N) {
	for try := 0; ; try++ {
		g := &lang.G{R: core.NewRng(c.Seed, "C16", i, try), C: lang.Cfg{
			Depth: 3 + i%3, Pool: []string{"a", "b", "c"}, Lazy: true, HigherOrder: true, Variadic: i%3 == 0, Recursion: true, Alias: true,
			Subst: i%2 == 0, Data: i%2 == 1, Inj: i%4 == 0, Try: i%4 == 0, TrOneIn: 2, MaxStmts: 4,
		}}
		prog := g.Program()
		if (g.NLazyParams > 0 && lang.Count(prog) <= thorN(c, 140, 220)) || try >= 12 {
			return g, prog
		}
	}
}

func init() {
	core.Register(&core.Prop{
		ID:    "C16",
		Level: "exploration",
		Rule: "random programs whose functions mix lazy (#x), strict, closure-valued and variadic formals; call routes: by name, through (def g f) aliases, through function-valued parameters, computed callees ((mk a) b), apply, map, self-recursion in tail and non-tail position; argument expressions carry (tr …) effects (and in a quarter of the programs fault points); force patterns: never, once, many, inside closures returned from the callee (forced after the caller returned); (str (substitute #x)) recovers the source. " +
			"Every function first traces each strict formal (an unevaluated argument in a strict position would appear as <lazy>). Oracle: reference evaluator with thunks capturing the caller's frame chain and memoising force: value, error-ness, ordered effect trace; then every global function is called again after the program. " +
			"non-trivial = distinct program in which the reference forced at least one thunk and at least one lazily bound argument carried a trace effect",
		Assumptions: []string{
			"reference evaluator models: lazy positions decided by the callee's formals at call time; apply/map bind already evaluated values; a lazy formal that is also the variadic tail is not generated",
			"substitute is compared through (len (str (substitute #x))) only in programs without string/symbol literals (printing of quoted symbols is not modelled)",
		},
		NCases:  func(c *core.Ctx) int { return thorN(c, 4000, 60000) },
		MustSee: []string{"thunks_forced", "lazy_params", "strict_probes_seen", "alias_defs", "recursive_fns", "substitute_uses", "battery_calls"},
		Run:     c16Run,
	})
}

func c16Run(c *core.Ctx, i int) *core.Result {
	g, prog := c16Gen(c, i)
	text := lang.Plain.Program(prog)
	res := &core.Result{Input: text, Hash: core.HashOf(text)}
	ref := &lang.R{MaxSteps: 20000}
	genv := lang.NewEnv(nil)
	rv, rerr := ref.Run(prog, genv)
	if rerr != nil && rerr.Kind == "budget" {
		res.Verdict, res.Key = core.Inconclusive, "ref-budget"
		return res
	}
	s := NewSutRun(false)
	o := s.Eval(text, int64(400*ref.Steps+100000))
	res.Evals = 1
	if key, detail := CompareRun(rv, rerr, ref.Trace, o, s.Trace); key != "" {
		res.Violate(key, detail, text)
	}
	if s.LazySeen > 0 {
		res.Violate("strict-host-function-received-lazy-arg", fmt.Sprintf("the host trace function received %d unevaluated argument(s)", s.LazySeen), text)
	}
	forced := ref.Forced
	if res.Verdict != core.Violated {
		RunBattery(res, g, ref, genv, s, text, []int64{1, 3}, "")
	}
	res.Ev("thunks_forced", int64(ref.Forced))
	res.Ev("lazy_params", int64(g.NLazyParams))
	res.Ev("force_sites", int64(g.NForce))
	res.Ev("substitute_uses", int64(g.NSubst))
	res.Ev("alias_defs", int64(g.NAlias))
	res.Ev("recursive_fns", int64(g.NRec))
	res.Ev("tail_recursive_fns", int64(g.NTailRec))
	res.Ev("variadic_fns", int64(g.NVariadic))
	probes := 0
	lang.Walk(prog, func(n *lang.N) {
		if n.K == "defn" || n.K == "fn" {
			for _, x := range n.A {
				if x.K == "tr" && len(x.A) == 1 && x.A[0].K == "var" {
					probes++
				}
			}
		}
	})
	res.Ev("strict_probes_seen", int64(probes))
	res.Nontrivial = ref.Forced+forced > 0 && g.NLazyParams > 0
	return res
}
