package props

import (
	"fmt"
	"strings"

	"zyverif/core"
	"zyverif/lang"
	"zyverif/sut"
)

// C16 — lazy parameters (DESIGN §4.C16).

func c16Gen(c *core.Ctx, i int) (*lang.G, []*lang.N) {
	for try := 0; ; try++ {
		g := &lang.G{R: core.NewRng(c.Seed, "C16", i, try), C: lang.Cfg{
			Depth: 3 + i%3, Pool: []string{"a", "b", "c"}, Lazy: true, HigherOrder: true, Variadic: i%3 == 0, Recursion: true, Alias: true,
			Subst: i%2 == 0, Data: i%2 == 1, Inj: i%4 == 0, Try: i%4 == 0, TrOneIn: 2, MaxStmts: 4,
		}}
		prog := g.Program()
		if (g.NLazyParams > 0 && lang.Count(prog) <= thorN(c, 140, 220)) || try >= 12 {
			return g, prog
		}
	}
}

func init() {
	core.Register(&core.Prop{
		ID:    "C16",
		Level: "exploration",
		Rule: "random programs whose functions mix lazy (#x), strict, closure-valued and variadic formals; call routes: by name, through (def g f) aliases, through function-valued parameters, computed callees ((mk a) b), apply, map, self-recursion in tail and non-tail position; argument expressions carry (tr …) effects (and in a quarter of the programs fault points); force patterns: never, once, many, inside closures returned from the callee (forced after the caller returned); (str (substitute #x)) recovers the source. " +
			"Every function first traces each strict formal (an unevaluated argument in a strict position would appear as <lazy>). Oracle: reference evaluator with thunks capturing the caller's frame chain and memoising force: value, error-ness, ordered effect trace; then every global function is called again after the program. " +
			"non-trivial = distinct program in which the reference forced at least one thunk and at least one lazily bound argument carried a trace effect",
		Assumptions: []string{
			"reference evaluator models: lazy positions decided by the callee's formals at call time; apply/map bind already evaluated values; a lazy formal that is also the variadic tail is not generated",
			"substitute is compared through (len (str (substitute #x))) only in programs without string/symbol literals (printing of quoted symbols is not modelled)",
		},
		NCases:  func(c *core.Ctx) int { return thorN(c, 4000, 60000) + len(c16Twins) + len(c16Fixed) + 1 },
		MustSee: []string{"thunks_forced", "lazy_params", "strict_probes_seen", "alias_defs", "recursive_fns", "substitute_uses", "battery_calls", "lazy_strict_twins", "path_argument_calls"},
		Run:     c16Run,
	})
}

// Lazy-versus-strict twins: programs whose lazy formals (#x, forced with FORCE) receive
// arguments without effects of their own, so that the strict twin (x, used as x) is the oracle on
// the real VM: value and trace must agree whatever the call route, the kind of the value bound
// and the names bound where the force happens. L marks a lazy formal, F(x) its use.
var c16Twins = []string{
	// apply / map bind already evaluated values of every kind; forcing gives the value back, never runs it
	"(defn fx [Lx] F(x)) (apply fx [(quote (tr 9 1))])", "(defn fx [Lx] F(x)) (apply fx [(quote zork)])", "(defn fx [Lx] F(x)) (apply fx [(list 1 2 3)])", "(defn fx [Lx] F(x)) (apply fx [[1 2]])",
	"(defn fx [Lx] F(x)) (apply fx [(hash a: 1)])", "(defn fx [Lx] F(x)) (apply fx [nil])", "(defn fx [Lx] F(x)) (apply fx [\"s\"])", "(defn fx [Lx] F(x)) (apply fx [(fn [] 3)])",
	"(defn fx [a Lx] (list a F(x))) (apply fx [1 (list 1 2 3)])", "(defn fx [a Lx] (list a F(x) F(x))) (apply fx [1 (quote (tr 9 1))])", "(defn fx [Lx] F(x)) (map fx [(quote zork) (quote n) (quote (tr 9 1))])", "(defn fx [Lx] F(x)) (map fx (list (list 1 2) (quote q)))",
	"(defn fx [Lx & r] (list F(x) r)) (apply fx [(quote (tr 9 1)) (quote (tr 8 1))])", "(defn fx [Lx] (fn [] F(x))) ((apply fx [(quote (tr 9 1))]))", "(defn fx [Lx] F(x)) (def g fx) (apply g [(quote (tr 9 1))])",
	// a variable of the argument expression that the forcing frame also binds must resolve in the CALLER's lexical scope
	"(def g 8) (defn callee [Lx] (let [g 101] F(x))) (defn caller [] (callee (+ g 0))) (caller)",
	"(def g 8) (defn callee [Lx] (def g 101) F(x)) (defn caller [] (callee (+ g 0))) (caller)",
	"(defn callee [Lx] (let [v 500] F(x))) (defn mk [v] (fn [] (callee (+ v 1)))) ((mk 9))",
	"(defn callee [Lx] (fn [] (let [v 3000 g 7] F(x)))) (defn mk [v] (fn [] (callee (+ v 1000)))) (((mk 10)))",
	"(def g 8) (defn callee [Lx g] (+ g F(x))) (defn caller [] (callee (* g 2) 100)) (caller)",
	"(defn callee [Lx n] (cond (<= n 0) F(x) (callee F(x) (- n 1)))) (defn caller [n] (callee (+ n 20) 3)) (caller 1)",
	"(defn outer [a] (defn inner [] (callee (+ a 1))) (inner)) (defn callee [Lx] (let [a 77] (newScope (def a 78) F(x)))) (outer 5)",
	"(def g 8) (defn callee [Lx] (for [(def g 0) (< g 1) (def g (+ g 1))] (set out F(x))) out) (def out 0) (defn caller [] (callee (+ g 0))) (caller)",
	"(defn callee [Lx Ly] (let [p 1 q 2] (list F(y) F(x)))) (defn caller [p q] (callee (* p 10) (* q 10))) (caller 3 4)",
	"(defn c2 [Lx] (let [w 9] F(x))) (defn c1 [Lx] (let [w 5] (c2 F(x)))) (defn caller [w] (c1 (+ w 1))) (caller 1)",
	"(defn c2 [Lx] (let [w 9] F(x))) (defn c1 [Lx] (let [w 5] (c2 (+ w F(x))))) (defn caller [w] (c1 (+ w 1))) (caller 1)",
	"(func callee [Lx:int64] [r:int64] (let [g 101] F(x))) (def g 8) (defn caller [] (callee (+ g 0))) (caller)",
	"(def h (hash f: (fn [Lx] (let [g 101] F(x))))) (def g 8) (defn caller [] ((hget h f:) (+ g 0))) (caller)",
	// typed funcs whose argument for the lazy position is a bare variable name
	"(func t1 [Lx:int64] [r:int64] F(x)) (def who 41) (t1 who)",
	"(func t2 [a:int64 Lx:int64] [r:int64] (+ a F(x))) (def who 41) (t2 1 who)",
	"(func t3 [Lx:int64 b:int64] [r:int64] (+ b F(x))) (def who 41) (defn viaf [w] (t3 w 2)) (viaf who)",
}

// programs with a fixed expected outcome (value, trace) that have no strict twin
var c16Fixed = []struct{ prog, want, trace string }{
	{"(defn sf [#x] (list (force #x) (str (substitute #x)) (force #x))) (def who 7) (sf (+ who (tr 1 1)))", `(8 "(+ who (tr 1 1))" 8)`, "1:1"},
	{"(defn sf [#x] (list (str (substitute #x)) (force #x) (str (substitute #x)))) (def who 7) (sf (* who 2))", `("(* who 2)" 14 "(* who 2)")`, ""},
	{"(func skip2 [a:int64 #x:int64] [r:int64] a) (skip2 4 neverDefined9)", "4", ""},
	{"(def saved nil) (defn keep [#x] (set saved #x) 0) (keep (+ later9 (tr 1 1))) (def later9 5) (list (force saved) (force saved))", "(6 6)", "1:1"},
	{"(defn twice [#x] (+ (force #x) (force #x))) (twice (tr 1 10))", "20", "1:10"},
	{"(defn never [#x y] y) (never (tr 1 (/ 1 0)) 3)", "3", ""},
	// dot-path arguments of a self call in tail position denote the caller's values, not the next iteration's
	{"(defn f [v h n] (cond (== n 0) v (f h.a (hash a: (+ n 100)) (- n 1)))) (f 0 (hash a: 5) 3)", "102", ""},
	{"(defn f [h v n] (cond (== n 0) v (f (hash a: (+ n 100)) h.a (- n 1)))) (f (hash a: 5) 0 3)", "102", ""},
	{"(defn f [v h n] (cond (== n 0) v (let [w 1] (f h.a (hash a: (+ n 100 (tr 1 n))) (- n 1))))) (f 0 (hash a: 5) 2)", "104", "1:2,1:1"},
	// several evaluations on one interpreter (separated by |): a stashed lazy argument whose first forces fail
	{"(def saved nil) (defn keep [#x] (set saved #x) 0) (keep (+ later9 (tr 1 1))) | (force saved) | (force saved) | (def later9 5) (list (force saved) (force saved))", "0|ERR|ERR|(6 6)", "1:1"},
	{"(def saved nil) (defn keep [#x] (set saved #x) 0) (keep (aget arr9 (tr 1 2))) | (def arr9 [1]) (force saved) | (def arr9 [1 2 3]) (force saved) | (force saved)", "0|ERR|3|3", "1:2,1:2"},
}

func c16TwinRun(c *core.Ctx, k int) *core.Result {
	t := c16Twins[k]
	lazy := strings.NewReplacer("Lx", "#x", "Ly", "#y", "F(x)", "(force #x)", "F(y)", "(force #y)").Replace(t) + "\n"
	strict := strings.NewReplacer("Lx", "x", "Ly", "y", "F(x)", "x", "F(y)", "y").Replace(t) + "\n"
	res := &core.Result{Input: lazy, Hash: core.HashOf(lazy), Nontrivial: true}
	a, b := NewSutRun(true), NewSutRun(true)
	oa, ob := a.Eval(lazy, 200000), b.Eval(strict, 200000)
	res.Evals = 2
	res.Ev("lazy_strict_twins", 1)
	if oa.Panic != "" {
		res.Violate("escaped-panic:"+oa.Site, oa.Panic, lazy)
		return res
	}
	if ob.Err != nil || ob.Panic != "" || ob.Budget {
		res.Verdict, res.Key, res.Detail = core.Inconclusive, "strict-twin-fails", OutStr(ob)
		return res
	}
	if OutStr(oa) != OutStr(ob) || strings.Join(a.Trace, ",") != strings.Join(b.Trace, ",") {
		res.Violate("lazy-differs-from-strict-twin", fmt.Sprintf("with lazy formals forced: %s trace %v; with strict formals: %s trace %v", OutStr(oa), a.Trace, OutStr(ob), b.Trace), lazy)
	}
	return res
}

func c16Run(c *core.Ctx, i int) *core.Result {
	if base := thorN(c, 4000, 60000) + len(c16Twins); i >= base {
		if i-base >= len(c16Fixed) {
			return c16PathCase(c)
		}
		f := c16Fixed[i-base]
		res := &core.Result{Input: f.prog, Hash: core.HashOf(f.prog), Nontrivial: true}
		s := NewSutRun(true)
		var gots []string
		for _, step := range strings.Split(f.prog, " | ") {
			o := s.Eval(step+"\n", 200000)
			res.Evals++
			if o.Panic != "" {
				res.Violate("escaped-panic:"+o.Site, o.Panic, f.prog)
				return res
			}
			if o.Err != nil {
				gots = append(gots, "ERR")
			} else {
				gots = append(gots, sut.Show(o.Val))
			}
		}
		res.Ev("lazy_strict_twins", 1)
		if got := strings.Join(gots, "|"); got != f.want || strings.Join(s.Trace, ",") != f.trace {
			res.Violate("lazy-fixed-expectation", fmt.Sprintf("must give %s with trace [%s]; got %s with trace %v", f.want, f.trace, got, s.Trace), f.prog)
		}
		return res
	}
	if base := thorN(c, 4000, 60000); i >= base {
		return c16TwinRun(c, i-base)
	}
	g, prog := c16Gen(c, i)
	text := lang.Plain.Program(prog)
	res := &core.Result{Input: text, Hash: core.HashOf(text)}
	ref := &lang.R{MaxSteps: 20000}
	genv := lang.NewEnv(nil)
	rv, rerr := ref.Run(prog, genv)
	if rerr != nil && rerr.Kind == "budget" {
		res.Verdict, res.Key = core.Inconclusive, "ref-budget"
		return res
	}
	s := NewSutRun(false)
	o := s.Eval(text, int64(400*ref.Steps+100000))
	res.Evals = 1
	if key, detail := CompareRun(rv, rerr, ref.Trace, o, s.Trace); key != "" {
		res.Violate(key, detail, text)
	}
	if s.LazySeen > 0 {
		res.Violate("strict-host-function-received-lazy-arg", fmt.Sprintf("the host trace function received %d unevaluated argument(s)", s.LazySeen), text)
	}
	forced := ref.Forced
	if res.Verdict != core.Violated {
		RunBattery(res, g, ref, genv, s, text, []int64{1, 3}, "")
	}
	res.Ev("thunks_forced", int64(ref.Forced))
	res.Ev("lazy_params", int64(g.NLazyParams))
	res.Ev("force_sites", int64(g.NForce))
	res.Ev("substitute_uses", int64(g.NSubst))
	res.Ev("alias_defs", int64(g.NAlias))
	res.Ev("recursive_fns", int64(g.NRec))
	res.Ev("tail_recursive_fns", int64(g.NTailRec))
	res.Ev("variadic_fns", int64(g.NVariadic))
	probes := 0
	lang.Walk(prog, func(n *lang.N) {
		if n.K == "defn" || n.K == "fn" {
			for _, x := range n.A {
				if x.K == "tr" && len(x.A) == 1 && x.A[0].K == "var" {
					probes++
				}
			}
		}
	})
	res.Ev("strict_probes_seen", int64(probes))
	res.Nontrivial = ref.Forced+forced > 0 && g.NLazyParams > 0
	return res
}
