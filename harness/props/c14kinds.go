package props

import (
	"fmt"
	"strings"

	"zyverif/core"
	"zyverif/sut"
)

// Value kinds: histories whose VALUES are of every kind (nil, empty string, zero, false, empty
// containers, chars, floats) under symbol, string and integer keys. A stored nil is a value like
// any other: the key is live, counted, listed, reached by position and visited by iteration.
const c14KindCases = 60

var c14KindVals = []struct{ src, show string }{
	{"nil", "nil"}, {`""`, `""`}, {"0", "0"}, {"false", "false"}, {"[]", "[]"}, {"(hash)", "{}"}, {"'c'", "'c'"}, {"0.5", "0.5"},
	{`"s"`, `"s"`}, {"7", "7"}, {"(list)", "nil"}, {"[nil]", "[nil]"}, {"true", "true"}, {"-1", "-1"},
}

var c14KindKeys = []struct{ src, show string }{
	{"a:", "a"}, {"b:", "b"}, {"c:", "c"}, {"d:", "d"}, {`"x"`, `"x"`}, {`"y"`, `"y"`}, {"7", "7"}, {"0", "0"}, {"-3", "-3"},
}

func c14Kinds(c *core.Ctx, k int) *core.Result {
	r := core.NewRng(c.Seed, "C14k", k, 0)
	res := &core.Result{Nontrivial: true}
	s := NewSutRun(true)
	var hist []string
	var order []int
	vals := map[int]int{}
	ev := func(text string) *sut.Outcome {
		res.Evals++
		return s.Eval(text+"\n", 0)
	}
	ev("(def h (hash))")
	hist = append(hist, "(def h (hash))")
	bad := func(key, detail string) *core.Result {
		res.Violate("view:"+key, detail, strings.Join(hist, " "))
		res.Input = strings.Join(hist, " ")
		return res
	}
	n := 4 + r.N(7)
	for st := 0; st < n; st++ {
		ki := r.N(len(c14KindKeys))
		if k%4 == 0 { // histories with symbol keys only
			ki = r.N(4)
		}
		_, live := vals[ki]
		var text string
		if live && r.N(4) == 0 {
			text = fmt.Sprintf("(hdel h %s)", c14KindKeys[ki].src)
			delete(vals, ki)
			for j, o := range order {
				if o == ki {
					order = append(order[:j:j], order[j+1:]...)
					break
				}
			}
		} else {
			vi := r.N(len(c14KindVals))
			if r.N(3) == 0 {
				vi = 0 // nil, often
			}
			text = fmt.Sprintf("(hset h %s %s)", c14KindKeys[ki].src, c14KindVals[vi].src)
			if !live {
				order = append(order, ki)
			}
			vals[ki] = vi
		}
		hist = append(hist, text)
		if o := ev(text); o.Err != nil || o.Panic != "" {
			return bad("operation-failed", text+": "+OutStr(o))
		}
		res.Ev("value_kind_steps", 1)
	}
	var wantKeys, wantPairs []string
	for _, ki := range order {
		wantKeys = append(wantKeys, c14KindKeys[ki].show)
		wantPairs = append(wantPairs, c14KindKeys[ki].show+":"+c14KindVals[vals[ki]].show)
	}
	check := func(view, text, want string) bool {
		o := ev(text)
		got := OutStr(o)
		if o.Panic != "" || o.Err != nil || got != want {
			bad(view, fmt.Sprintf("%s must give %s, got %s", text, want, core.Trunc(got, 300)))
			return false
		}
		return true
	}
	res.Ev("observations", 1)
	if !check("len", "(len h)", fmt.Sprint(len(order))) || !check("keys", "(str (keys h))", `"[`+strings.ReplaceAll(strings.Join(wantKeys, " "), `"`, `\"`)+`]"`) ||
		!check("str", "(str h)", `"{`+strings.ReplaceAll(strings.Join(wantPairs, " "), `"`, `\"`)+`}"`) {
		return res
	}
	for x, ki := range order {
		pair := fmt.Sprintf("(%s %s)", c14KindKeys[ki].show, c14KindVals[vals[ki]].show)
		if !check("hpair", fmt.Sprintf("(str (hpair h %d))", x), `"`+strings.ReplaceAll(pair, `"`, `\"`)+`"`) {
			return res
		}
		if !check("hget", fmt.Sprintf("(str (hget h %s))", c14KindKeys[ki].src), `"`+strings.ReplaceAll(c14KindVals[vals[ki]].show, `"`, `\"`)+`"`) ||
			!check("hget-default", fmt.Sprintf("(str (hget h %s 424242))", c14KindKeys[ki].src), `"`+strings.ReplaceAll(c14KindVals[vals[ki]].show, `"`, `\"`)+`"`) {
			return res
		}
	}
	for ki := range c14KindKeys {
		if _, live := vals[ki]; !live {
			if !check("hget-default", fmt.Sprintf("(hget h %s 424242)", c14KindKeys[ki].src), "424242") {
				return res
			}
		}
	}
	res.Ev("range_iterations", 2)
	if !check("range-macro", "(def acc9 []) (range k v h (set acc9 (append acc9 (str k)))) (str acc9)", `"[`+c14Quoted(wantKeys)+`]"`) ||
		!check("range-for", "(def acc8 []) {for k, v := range h { (set acc8 (append acc8 (str k))) }} (str acc8)", `"[`+c14Quoted(wantKeys)+`]"`) {
		return res
	}
	// the one-variable form (its key variable is defined again on every iteration)
	kinds := map[byte]bool{}
	for _, ki := range order {
		kinds[c14KindKeys[ki].src[0]] = true
	}
	mixed := ""
	if nk := len(kinds) - btoi(kinds['-'] && kinds['7'] || kinds['-'] && kinds['0']); nk > 1 || (kinds['"'] && len(kinds) > 1) {
		mixed = ":keys-of-several-types"
	}
	res.Ev("range_iterations", 1)
	if !check("range-for-one-variable"+mixed, "(def acc7 []) {for k := range h { (set acc7 (append acc7 (str k))) }} (str acc7)", `"[`+c14Quoted(wantKeys)+`]"`) {
		return res
	}
	res.Input = strings.Join(hist, " ")
	res.Hash = core.HashOf(res.Input)
	return res
}

func btoi(b bool) int {
	if b {
		return 1
	}
	return 0
}

// the printed form of an array of the strings that (str k) gives
func c14Quoted(keys []string) string {
	var out []string
	for _, k := range keys {
		out = append(out, `\"`+strings.ReplaceAll(k, `"`, `\\\"`)+`\"`)
	}
	return strings.Join(out, " ")
}
