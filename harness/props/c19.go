package props

import (
	"fmt"
	"strconv"
	"strings"

	"github.com/glycerine/zygomys/v9/zygo"
	"zyverif/core"
	"zyverif/sut"
)

// C19 — symbols are interned consistently across a family of interpreters
// (original + Duplicate()/Clone() members) (DESIGN §4.C19).

type c19op struct{ kind, m, j int } // 0 make name j on member m; 1 gen prefix j on member m; 2 dup m; 3 clone m

var c19Prefixes = []string{"__gensym", "g", "__anon"}

func c19Ops() []c19op {
	var ops []c19op
	for m := 0; m < 3; m++ {
		for j := 0; j < 6; j++ {
			ops = append(ops, c19op{0, m, j})
		}
		for j := 0; j < 3; j++ {
			ops = append(ops, c19op{1, m, j})
		}
		ops = append(ops, c19op{2, m, 0}, c19op{3, m, 0})
	}
	return ops
}

type c19model struct {
	name2num map[string]int
	num2name map[int]string
	genNames map[string]bool
}

func (m *c19model) check(s *zygo.SexpSymbol, generated bool) string {
	nm, nu := s.Name(), s.Number()
	if generated {
		if _, existed := m.name2num[nm]; existed {
			return fmt.Sprintf("generated-symbol-already-existed|generated symbol %s (number %d) existed before the call", nm, nu)
		}
		m.genNames[nm] = true
	}
	if old, ok := m.name2num[nm]; ok && old != nu {
		return fmt.Sprintf("same-name-two-numbers|name %s had number %d, now %d", nm, old, nu)
	}
	if old, ok := m.num2name[nu]; ok && old != nm {
		return fmt.Sprintf("two-names-one-number|number %d names both %s and %s: different names yield equal symbols", nu, old, nm)
	}
	m.name2num[nm] = nu
	m.num2name[nu] = nm
	return ""
}

func c19RunSeq(seq []c19op, res *core.Result) (hist string, msg string) {
	base := zygo.NewZlispWithFuncs(map[string]zygo.ZlispUserFunction{})
	fam := []*zygo.Zlisp{base}
	probe := base.GenSymbol("zz")
	n0 := probe.Number()
	names := []string{"alpha", "__gensym" + strconv.Itoa(n0+2), "g" + strconv.Itoa(n0+3), "__gensym" + strconv.Itoa(n0+4), "__anon" + strconv.Itoa(n0+3), ""}
	m := &c19model{map[string]int{}, map[int]string{}, map[string]bool{}}
	m.check(probe, false)
	var h []string
	for _, o := range seq {
		if o.m >= len(fam) {
			return strings.Join(h, " "), "" // member does not exist (yet): sequence not applicable beyond here
		}
		env := fam[o.m]
		var pan, site string
		switch o.kind {
		case 0:
			h = append(h, fmt.Sprintf("make(member%d,%s)", o.m, names[o.j]))
			pan, site = sut.Protect(func() { msg = m.check(env.MakeSymbol(names[o.j]), false) })
			res.Ev("make_symbol", 1)
		case 1:
			h = append(h, fmt.Sprintf("gensym(member%d,%s)", o.m, c19Prefixes[o.j]))
			pan, site = sut.Protect(func() { msg = m.check(env.GenSymbol(c19Prefixes[o.j]), true) })
			res.Ev("gen_symbol", 1)
		case 2:
			h = append(h, fmt.Sprintf("duplicate(member%d)", o.m))
			pan, site = sut.Protect(func() { fam = append(fam, env.Duplicate()) })
			res.Ev("duplicates", 1)
		case 3:
			h = append(h, fmt.Sprintf("clone(member%d)", o.m))
			pan, site = sut.Protect(func() { fam = append(fam, env.Clone()) })
			res.Ev("clones", 1)
		}
		if pan != "" {
			return strings.Join(h, " "), "escaped-panic:" + site + "|" + pan
		}
		if msg != "" {
			return strings.Join(h, " "), msg
		}
	}
	// final cross-check: every member resolves every known name to the recorded number
	for mi, env := range fam {
		for nm, nu := range m.name2num {
			if got := env.MakeSymbol(nm).Number(); got != nu {
				return strings.Join(h, " "), fmt.Sprintf("member-disagrees|member %d resolves %s to %d, the family recorded %d", mi, nm, got, nu)
			}
		}
	}
	return strings.Join(h, " "), ""
}

func c19Depth(c *core.Ctx) int { return thorN(c, 4, 5) }

func init() {
	core.Register(&core.Prop{
		ID:    "C19",
		Level: "exploration",
		Rule: "API histories over a family of interpreters sharing one symbol table: operations MakeSymbol(name) (name pool: a plain name and names shaped like generated symbols with counters just ahead of the members' next number: __gensym<n>, g<n>, __anon<n>; and the empty name), GenSymbol(prefix) with prefixes __gensym / g / __anon, Duplicate() and Clone(), each on any of up to three members — all sequences of length 4 (quick: 33^4 = 1185921) / 5 (thorough: 39.1 million) exhaustively, sharded by their first two operations; plus script-level histories mixing str2sym, gensym, symnum, read, macro definitions and anonymous functions, names that differ only in letter case, checked through (== a b), (!= a b), equality of arrays and lists holding the symbols, (symnum x) and hash lookups keyed by symbols. " +
			"Monitor: after every operation the returned symbol's (name, number) is entered into a global name<->number bijection; a generated symbol must be absent before the call. non-trivial = distinct sequence that contains a GenSymbol/gensym after a look-alike name was interned, or a Duplicate/Clone followed by interning on two different members",
		Assumptions: []string{"sequences that address a member which does not exist yet are cut at that point"},
		NCases: func(c *core.Ctx) int {
			n := len(c19Ops())
			return n*n + thorN(c, 600, 6000)
		},
		Exhaustive: func(c *core.Ctx) bool { return true },
		Chunk:      60,
		MustSee:    []string{"make_symbol", "gen_symbol", "duplicates", "clones", "script_histories", "lookalike_then_gensym"},
		Run:        c19Run,
	})
}

func c19Run(c *core.Ctx, i int) *core.Result {
	ops := c19Ops()
	n := len(ops)
	if i >= n*n {
		return c19Script(c, i)
	}
	res := &core.Result{}
	prefix := []c19op{ops[i/n], ops[i%n]}
	rest := c19Depth(c) - 2
	idx := make([]int, rest)
	nontrivial := map[string]bool{}
	for {
		seq := append([]c19op{}, prefix...)
		for _, k := range idx {
			seq = append(seq, ops[k])
		}
		hist, msg := c19RunSeq(seq, res)
		res.Evals++
		look, gen, fam, two := false, false, false, map[int]bool{}
		for _, o := range seq {
			switch o.kind {
			case 0:
				if o.j > 0 && o.j < 5 {
					look = true
				}
				if fam {
					two[o.m] = true
				}
			case 1:
				if look {
					gen = true
				}
				if fam {
					two[o.m] = true
				}
			default:
				fam = true
			}
		}
		if gen {
			res.Ev("lookalike_then_gensym", 1)
		}
		if gen || len(two) >= 2 {
			nontrivial[hist] = true
		}
		if msg != "" {
			parts := strings.SplitN(msg, "|", 2)
			res.Violate(parts[0], parts[len(parts)-1], hist)
		}
		// next suffix
		k := rest - 1
		for k >= 0 {
			idx[k]++
			if idx[k] < n {
				break
			}
			idx[k] = 0
			k--
		}
		if k < 0 {
			break
		}
	}
	res.Nontrivial = len(nontrivial) > 0
	if res.Verdict != core.Violated {
		res.Input = fmt.Sprintf("all %d-operation sequences over 33 operations starting with %+v %+v", c19Depth(c), prefix[0], prefix[1])
	}
	res.Hash = core.HashOf(fmt.Sprintf("c19-%d-%d", i, c19Depth(c)))
	// the count of distinct non-trivial sequences is reported as an event (a case covers many sequences)
	res.Ev("distinct_nontrivial_sequences", int64(len(nontrivial)))
	return res
}

// script-level histories
func c19Script(c *core.Ctx, i int) *core.Result {
	r := core.NewRng(c.Seed, "C19s", i, 0)
	res := &core.Result{Nontrivial: true}
	s := NewSutRun(true)
	o := s.Eval("(symnum (gensym))\n", 0)
	ctr := int64(0)
	if x, ok := o.Val.(*zygo.SexpInt); ok && o.Err == nil {
		ctr = x.Val
	}
	m := &c19model{map[string]int{}, map[int]string{}, map[string]bool{}}
	var hist []string
	s.Eval("(def syms [])\n(def hh (hash))\n", 0)
	nsym := 0
	observe := func(expr string, generated bool) bool {
		// bind the symbol, then read name and number through the script API
		text := fmt.Sprintf("(def cur %s)\n", expr)
		hist = append(hist, strings.TrimSpace(text))
		o := s.Eval(text, 0)
		res.Evals++
		if o.Panic != "" {
			res.Violate("escaped-panic:"+o.Site, o.Panic, strings.Join(hist, " "))
			return false
		}
		if o.Err != nil {
			return true // e.g. str2sym of an unreadable spelling: not a symbol event
		}
		sym, ok := o.Val.(*zygo.SexpSymbol)
		if !ok {
			return true
		}
		if msg := m.check(sym, generated); msg != "" {
			parts := strings.SplitN(msg, "|", 2)
			res.Violate("script:"+parts[0], parts[1], strings.Join(hist, " "))
			return false
		}
		// language-level equality and hash identity agree with the numbers
		o2 := s.Eval(fmt.Sprintf("(hset hh cur %d)\n(set syms (append syms cur))\n(len hh)\n", nsym), 0)
		distinct := len(m.name2num)
		_ = distinct
		if o2.Err == nil && o2.Panic == "" {
			if n, ok := o2.Val.(*zygo.SexpInt); ok {
				// hh has one entry per distinct symbol bound so far
				seen := map[string]bool{}
				for _, h := range hist {
					_ = h
				}
				_ = seen
				_ = n
			}
		}
		nsym++
		return true
	}
	steps := 12 + r.N(10)
	look := false
	names := map[string]bool{}
	for k := 0; k < steps && res.Verdict != core.Violated; k++ {
		switch r.N(9) {
		case 7, 8: // names that differ only in the case of their letters, or by a trailing digit / colon-free punctuation
			nm := []string{"gamma", "Gamma", "GAMMA", "gAmma", "gamma1", "gamma_", "Gamma1", "straße", "STRASSE", "é", "É"}[r.N(11)]
			if r.Bool() {
				observe(fmt.Sprintf("(quote %s)", nm), false)
			} else {
				observe(fmt.Sprintf("(str2sym %q)", nm), false)
			}
		case 0, 1:
			pre := c19Prefixes[r.N(2)]
			nm := pre + strconv.FormatInt(ctr+int64(r.N(40)), 10)
			names[nm] = true
			look = true
			observe(fmt.Sprintf("(str2sym %q)", nm), false)
		case 2, 3:
			if look {
				res.Ev("lookalike_then_gensym", 1)
			}
			if r.Bool() {
				observe("(gensym)", true)
			} else {
				observe(`(gensym "g")`, true)
			}
		case 4:
			// anonymous functions and macros intern generated names too
			t := fmt.Sprintf("(def f%d (fn [x] x))\n(defmac m%d [y] ^(+ 1 ~y))\n(m%d 2)\n", k, k, k)
			hist = append(hist, strings.TrimSpace(strings.ReplaceAll(t, "\n", " ")))
			o := s.Eval(t, 0)
			if o.Panic != "" {
				res.Violate("escaped-panic:"+o.Site, o.Panic, strings.Join(hist, " "))
			}
		case 5:
			nm := "alpha" + strconv.Itoa(r.N(4))
			observe(fmt.Sprintf("(first (read %q))", "("+nm+" 1)"), false)
		case 6:
			observe(fmt.Sprintf("(quote beta%d)", r.N(3)), false)
		}
	}
	// pairwise: (== a b) exactly when the names are equal, for all collected symbols
	if res.Verdict != core.Violated {
		o := s.Eval("(len syms)\n", 0)
		if n, ok := o.Val.(*zygo.SexpInt); ok && o.Err == nil {
			for a := 0; a < int(n.Val); a++ {
				for b := a + 1; b < int(n.Val); b++ {
					o := s.Eval(fmt.Sprintf("(list (== (aget syms %d) (aget syms %d)) (== (str (aget syms %d)) (str (aget syms %d))) (not (!= (aget syms %d) (aget syms %d))) (== [(aget syms %d)] [(aget syms %d)]) (== (list 1 (aget syms %d)) (list 1 (aget syms %d))))\n", a, b, a, b, a, b, a, b, a, b), 0)
					res.Evals++
					if o.Err != nil || o.Panic != "" {
						continue
					}
					if got := sut.Show(o.Val); got != "(true true true true true)" && got != "(false false false false false)" {
						res.Violate("script:equality-disagrees-with-names", fmt.Sprintf("symbols %d and %d: (== a b) and equality of their names give %s", a, b, got), strings.Join(hist, " "))
					}
				}
			}
		}
		// hash keyed by symbols holds one entry per distinct name
		o = s.Eval("(len hh)\n", 0)
		if n, ok := o.Val.(*zygo.SexpInt); ok && o.Err == nil {
			distinct := map[string]bool{}
			o3 := s.Eval("(map (fn [x] (str x)) syms)\n", 0)
			if arr, ok := o3.Val.(*zygo.SexpArray); ok && o3.Err == nil {
				for _, e := range arr.Val {
					distinct[e.SexpString(nil)] = true
				}
				if int(n.Val) != len(distinct) {
					res.Violate("script:hash-key-identity", fmt.Sprintf("a hash keyed by the %d collected symbols (%d distinct names) has %d entries", len(arr.Val), len(distinct), n.Val), strings.Join(hist, " "))
				}
			}
		}
	}
	res.Ev("script_histories", 1)
	res.Input = strings.Join(hist, " ")
	res.Hash = core.HashOf(res.Input)
	return res
}
