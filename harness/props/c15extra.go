package props

import (
	"fmt"
	"strings"

	"github.com/glycerine/zygomys/v9/zygo"
	"zyverif/core"
	"zyverif/sut"
)

// Extra C15 scenarios: (0) templates and macros with a fixed expected outcome that the generators do
// not produce; (1) macros written in Go and installed through the host API; (2) a long run of failing
// expansions after which macros must still expand, in the same and in a fresh interpreter.
const c15ExtraCases = 3

var c15Fixed = []struct{ prog, want string }{
	{"(defn countdown [n] (cond (== n 0) %() ^(~n ~@(countdown (- n 1))))) (countdown 4)", "(4 3 2 1)"},
	{"(defn nest [n] (cond (== n 0) %(z) ^(w ~(nest (- n 1))))) (nest 3)", "(sym:w (sym:w (sym:w (sym:z))))"},
	{"(def l (quote (1 2))) (defn arr [n] ^[~n ~@l ~(+ n 1)]) (list (arr 0) (arr 5))", "([0 1 2 1] [5 1 2 6])"},
	{"(defmac twice [x] ^(begin ~x ~x)) (def n 0) (twice (set n (+ n 1))) n", "2"},
	{"(defmac sw [a b] ^(list ~b ~a)) (def k 0) (defn nxt [] (set k (+ k 1)) k) (sw (nxt) (nxt))", "(1 2)"},
	{"(defmac m1 [x] ^(+ 1 ~x)) (defmac m2 [x] ^(m1 (m1 ~x))) (defn f [y] (m2 y)) (list (f 1) (f 10))", "(3 12)"},
	{"(defmac unless [c & body] ^(cond ~c nil (begin ~@body))) (def out []) (for [(def i 0) (< i 4) (def i (+ i 1))] (unless (== i 2) (set out (append out i)))) out", "[0 1 3]"},
	{"(def lst (quote (1 2))) ^(a ~@lst ~@(quote ()) ~@lst b)", "(sym:a 1 2 1 2 sym:b)"},
	{"(def x 5) ^(a (b [~x {k: ~(+ x 1)}]) ~@(list x x))", "(sym:a (sym:b [5 (sym:hash sym:k 6)]) 5 5)"},
	{"(defmac mk [name val] ^(def ~name ~val)) (mk zork 7) (+ zork 1)", "8"},
	// a splice with nothing to be spliced into
	{"(def l (quote (1 2 3))) ^~@l", "ERR"},
	{"(def l (quote (1 2 3))) (def r9 ^~@l) r9", "ERR"},
	{"(def l (quote (1 2 3))) (list ^(~@l) ^[~@l] ^(a ~@l))", "((1 2 3) [1 2 3] (sym:a 1 2 3))"},
	// a dot path given to a macro is a form like any other argument
	{"(def h (hash x: 1)) (defmac setit [v] ^(set ~v 7)) (setit h.x) (hget h x:)", "7"},
	{"(def h (hash x: 1)) (defmac qt [v] ^(quote ~v)) (str (qt h.x))", `"h.x"`},
	{"(defmac addone [v] ^(+ 1 ~v)) (defn f [hh] (addone hh.x)) (f (hash x: 41))", "42"},
	{"(def h (hash x: 1)) (defmac two [a b] ^(list (+ 0 ~b) (+ 0 ~a))) (two h.x 5)", "(5 1)"},
}

func c15Extra(c *core.Ctx, k int) *core.Result {
	res := &core.Result{Nontrivial: true}
	switch k {
	case 0:
		res.Input = "templates and macros with fixed expectations"
		for _, f := range c15Fixed {
			s := NewSutRun(true)
			o := s.Eval(f.prog+"\n", 300000)
			res.Evals++
			res.Ev("fixed_templates", 1)
			if o.Panic != "" {
				res.Violate("escaped-panic:"+o.Site, o.Panic, f.prog)
				return res
			}
			if d := sut.DepthsOf(s.Env); !atRest(d) || d.Data != 0 {
				res.Violate("template-leaves-operands-behind", fmt.Sprintf("after the evaluation the stacks are %v", d), f.prog)
				return res
			}
			if f.want == "ERR" {
				if o.Err == nil {
					res.Violate("fixed-template-expectation", fmt.Sprintf("must be rejected, got %s", sut.Show(o.Val)), f.prog)
					return res
				}
				continue
			}
			if got := sut.Show(o.Val); o.Err != nil || got != f.want {
				res.Violate("fixed-template-expectation", fmt.Sprintf("must give %s, got %s (err %v)", f.want, got, o.Err), f.prog)
				return res
			}
		}
	case 1:
		res.Input = "macros written in Go (AddMacro)"
		env := zygo.NewZlisp()
		env.StandardSetup()
		depth := 0
		env.AddMacro("foldm", func(menv *zygo.Zlisp, name string, args []zygo.Sexp) (zygo.Sexp, error) {
			depth++
			defer func() { depth-- }()
			if depth > 3 {
				return zygo.SexpNull, fmt.Errorf("foldm re-entered while expanding")
			}
			if len(args) != 1 {
				return zygo.SexpNull, zygo.WrongNargs
			}
			return menv.EvalExpressions(args)
		})
		env.AddMacro("globalOf", func(menv *zygo.Zlisp, name string, args []zygo.Sexp) (zygo.Sexp, error) {
			sym, ok := args[0].(*zygo.SexpSymbol)
			if len(args) != 1 || !ok {
				return zygo.SexpNull, fmt.Errorf("globalOf needs a symbol")
			}
			val, err, _ := menv.LexicalLookupSymbol(sym, nil)
			return val, err
		})
		env.AddMacro("swapm", func(menv *zygo.Zlisp, name string, args []zygo.Sexp) (zygo.Sexp, error) {
			if len(args) != 2 {
				return zygo.SexpNull, zygo.WrongNargs
			}
			return zygo.MakeList([]zygo.Sexp{menv.MakeSymbol("list"), args[1], args[0]}), nil
		})
		var hist []string
		for _, st := range [][2]string{
			{"(def k 6)", "6"}, {"(def limit 10)", "10"}, {"(foldm (* k 7))", "42"}, {"(globalOf limit)", "10"},
			{"(defn area2 [r] (let [c (foldm (* k 7))] (* r c))) (area2 2)", "84"}, {"(+ 1 (foldm (* k 7)))", "43"},
			{"(defn area [r] (* r (foldm (* k 7)))) (area 2)", "84"}, {"(list (area 1) (area2 1) (foldm (+ k k)))", "(42 42 12)"},
			{"(defn pick [limit] (list (globalOf limit) limit)) (pick 3)", "(10 3)"}, {"(def n 0) (defn nxt [] (set n (+ n 1)) n) (swapm (nxt) (* 10 (nxt)))", "(10 2)"},
			{"(for [(def i 0) (< i 2) (def i (+ i 1))] (set k (+ k (foldm (+ 1 1))))) k", "10"},
		} {
			hist = append(hist, st[0])
			o := sut.Eval(env, st[0]+"\n", 300000)
			res.Evals++
			res.Ev("go_macro_steps", 1)
			if o.Panic != "" {
				res.Violate("escaped-panic:"+o.Site, o.Panic, strings.Join(hist, "\n"))
				return res
			}
			if got := sut.Show(o.Val); o.Err != nil || got != st[1] {
				res.Violate("go-macro-differs-from-its-expansion", fmt.Sprintf("%s must give %s (the value of the form the Go macro returns), got %s (err %v)", st[0], st[1], got, o.Err), strings.Join(hist, "\n"))
				return res
			}
			if d := sut.DepthsOf(env); !atRest(d) || d.Data != 0 {
				res.Violate("macro-expansion-disturbs-caller", fmt.Sprintf("after %s the caller's stacks are %v", st[0], d), strings.Join(hist, "\n"))
				return res
			}
		}
	case 2:
		res.Input = "1500 failing expansions, then ordinary macro use"
		env := zygo.NewZlisp()
		env.StandardSetup()
		sut.Eval(env, "(defmac one [x] ^(+ 1 ~x)) (defmac boomm [x] (aget [1] 9)) (defmac badexp [x] ^(let [q] ~x)) (defmac deep [x] ^(one (one (one ~x))))\n", 0)
		for j := 0; j < 1500; j++ {
			t := []string{"(one)", "(one 1 2)", "(boomm 1)", "(badexp 1)", "(deep)", "(one (badexp 2))"}[j%6]
			o := sut.Eval(env, t+"\n", 300000)
			res.Evals++
			res.Ev("failing_expansions", 1)
			if o.Panic != "" {
				res.Violate("escaped-panic:"+o.Site, o.Panic, t)
				return res
			}
			if o.Err == nil {
				res.Violate("failing-expansion-succeeded", fmt.Sprintf("%s must fail, got %s", t, OutStr(o)), t)
				return res
			}
		}
		probe := func(e *zygo.Zlisp, when string) bool {
			for _, q := range [][2]string{{"(defmac inc1 [x] ^(+ 1 ~x)) (def q 20) (inc1 (inc1 q))", "22"}, {"(def ct 0) (range k v [1 2 3] (set ct (+ ct v))) (++ ct) (+= ct 3) ct", "10"}, {"(defmac w1 [x] ^(+ 1 ~x)) (defmac w2 [x] ^(w1 (w1 (w1 ~x)))) (w2 (w2 (w2 0)))", "9"}, {"(macexpand (inc1 5))", "(sym:quote sym:+ 1 5)"}} {
				o := sut.Eval(e, q[0]+"\n", 300000)
				res.Evals++
				if got := sut.Show(o.Val); o.Err != nil || got != q[1] {
					res.Violate("macros-broken-by-earlier-failed-expansions", fmt.Sprintf("%s: %s must give %s, got %s (err %v)", when, q[0], q[1], got, o.Err), res.Input)
					return false
				}
			}
			return true
		}
		if probe(env, "after 1500 failed expansions") {
			fresh := zygo.NewZlisp()
			fresh.StandardSetup()
			probe(fresh, "in a fresh interpreter after 1500 failed expansions in another one")
		}
	}
	res.Hash = core.HashOf(res.Input)
	return res
}
