package props

import (
	"fmt"
	"strings"

	"zyverif/core"
	"zyverif/sut"
)

// Dot-path arguments of strict functions (C16: "all other arguments are evaluated exactly once
// before the call, and a strict function never receives an unevaluated argument"): the path must
// be resolved in the caller's scope before the call, whatever the callee binds under the same
// name. callee shape x call route x where the path's root lives x kind of container.
var c16PathCallees = []struct{ def, extraBefore, extraAfter, want string }{
	{"(defn cal [x] (+ x 0))", "", "", "V"},
	{"(defn cal [x pk] (+ x 0))", "", " (hash Pub: 99)", "V"},
	{"(defn cal [pk x] (+ x 0))", "(hash Pub: 99) ", "", "V"},
	{"(defn cal [& xs] (+ 0 (first xs)))", "", "", "V"},
	{"(defn cal [a & xs] (+ a (first xs)))", "0 ", "", "V"},
	{"(defn cal [x] (let [pk (hash Pub: 98)] (+ x 0)))", "", "", "V"},
	{"(defn cal [x] (type? x))", "", "", `"int64"`},
	{"(defn cal [x] (def pk (hash Pub: 97)) (list x x))", "", "", "(V V)"},
	{"(func cal [x:int64] [r:int64] (+ x 0))", "", "", "V"},
	{"(defn cal [x] (fn [] x))", "", "", "FN"},
	{"(defn cal [#l x] (+ x (force #l)))", "0 ", "", "V"},
	// the path in a LAZY position: forced later, it still denotes the caller's value
	{"(defn cal [#x] (+ 0 (force #x)))", "", "", "V"},
	{"(defn cal [#x] (let [pk (hash Pub: 98)] (+ 0 (force #x))))", "", "", "V"},
	{"(defn cal [#x pk] (+ (force #x) 0))", "", " (hash Pub: 99)", "V"},
	{"(defn cal [#x] (list (force #x) (force #x)))", "", "", "(V V)"},
	{"(defn cal [#x] (fn [] (force #x)))", "", "", "FN"},
}

var c16PathRoutes = []struct{ pre, call string }{
	{"", "(cal ARGS)"},
	{"(def al cal)", "(al ARGS)"},
	{"", "((cond true cal cal) ARGS)"},
	{"(def hh (hash f: cal))", "((hget hh f:) ARGS)"},
	{"", "(begin (cal ARGS))"},
	{"", "(let [q9 1] (cal ARGS))"},
}

var c16PathContainers = []struct{ decl, mk string }{
	{"", "(hash Pub: V)"},
	{"(struct Rc16 [(field Pub: int64)])", "(Rc16 Pub: V)"},
	{"", `(package "pq" (def Pub V))`},
	{"", "(hash Pub: V zz: 1)"},
}

// where the root of the path is bound: %C the container expression, %K the call
var c16PathRoots = []string{
	"(defn caller [pk] %K) (caller %C)",
	"(defn caller [] (let [pk %C] %K)) (caller)",
	"(def pk %C) (defn caller [] %K) (caller)",
	"(defn mk [pk] (fn [] %K)) ((mk %C))",
	"(def pk %C) %K",
	"(defn caller [pk n] (cond (== n 0) %K (caller pk (- n 1)))) (caller %C 3)",
}

func c16PathCase(c *core.Ctx) *core.Result {
	res := &core.Result{Nontrivial: true, Input: "dot-path arguments of strict functions"}
	res.Hash = core.HashOf(res.Input)
	v := 4000
	for ci, cal := range c16PathCallees {
		for ri, rt := range c16PathRoutes {
			for ki, ct := range c16PathContainers {
				for oi, root := range c16PathRoots {
					if (ci+ri+ki+oi)%2 == 1 && !c.Thor {
						continue
					}
					v++
					call := strings.Replace(rt.call, "ARGS", cal.extraBefore+"pk.Pub"+cal.extraAfter, 1)
					if cal.want == "FN" {
						call = "(" + call + ")"
					}
					body := strings.NewReplacer("%K", call, "%C", strings.Replace(ct.mk, "V", fmt.Sprint(v), 1)).Replace(root)
					prog := strings.TrimSpace(ct.decl+" "+cal.def+" "+rt.pre) + " " + body
					want := strings.ReplaceAll(cal.want, "V", fmt.Sprint(v))
					if cal.want == "FN" {
						want = fmt.Sprint(v)
					}
					s := NewSutRun(true)
					o := s.Eval(prog+"\n", 200000)
					res.Evals++
					res.Ev("path_argument_calls", 1)
					if o.Panic != "" {
						res.Violate("escaped-panic:"+o.Site, o.Panic, prog)
						return res
					}
					if got := sut.Show(o.Val); o.Err != nil || got != want {
						res.Violate(fmt.Sprintf("path-argument-not-evaluated-before-the-call:callee%d", ci), fmt.Sprintf("the argument pk.Pub is the caller's (value %d), so the program must give %s; got %s (err %v)", v, want, got, o.Err), prog)
					}
				}
			}
		}
	}
	return res
}
