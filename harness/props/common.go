package props

import (
	"fmt"
	"strings"

	"github.com/glycerine/zygomys/v9/zygo"
	"zyverif/core"
	"zyverif/lang"
	"zyverif/sut"
)

// SutRun is one real interpreter with the trace recorder and fault injector
// host functions registered through the public AddFunction API.
type SutRun struct {
	Env      *zygo.Zlisp
	Trace    []string
	InjN     int
	InjK     int
	InjKind  int // 0 script error, 1 Go panic inside the host function
	Absorbed int
	LazySeen int // strict host function received an unevaluated argument
}

func NewSutRun(std bool) *SutRun {
	s := &SutRun{Env: zygo.NewZlisp()}
	if std {
		s.Env.StandardSetup()
	}
	AddHostFuncs(s)
	return s
}

// AddHostFuncs registers tr/idw/try/inj on s.Env.
func AddHostFuncs(s *SutRun) {
	s.Env.AddFunction("tr", func(e *zygo.Zlisp, name string, args []zygo.Sexp) (zygo.Sexp, error) {
		if len(args) != 2 {
			return zygo.SexpNull, fmt.Errorf("tr: want 2 args")
		}
		id, ok := args[0].(*zygo.SexpInt)
		if !ok {
			return zygo.SexpNull, fmt.Errorf("tr: id")
		}
		if _, lazy := args[1].(*zygo.SexpLazyArg); lazy {
			s.LazySeen++
		}
		s.Trace = append(s.Trace, fmt.Sprintf("%d:%s", id.Val, sut.Show(args[1])))
		return args[1], nil
	})
	s.Env.AddFunction("idw", func(e *zygo.Zlisp, name string, args []zygo.Sexp) (zygo.Sexp, error) {
		if len(args) != 1 {
			return zygo.SexpNull, fmt.Errorf("idw: want 1 arg")
		}
		return args[0], nil
	})
	s.Env.AddFunction("try", func(e *zygo.Zlisp, name string, args []zygo.Sexp) (zygo.Sexp, error) {
		f, ok := args[0].(*zygo.SexpFunction)
		if !ok {
			return zygo.SexpNull, fmt.Errorf("try: want a function")
		}
		v, err := e.Apply(f, nil)
		if err != nil {
			if strings.Contains(err.Error(), zygo.ErrVerifBudget.Error()) {
				return zygo.SexpNull, err
			}
			s.Absorbed++
			return &zygo.SexpInt{Val: -77}, nil
		}
		return v, nil
	})
	s.Env.AddFunction("inj", func(e *zygo.Zlisp, name string, args []zygo.Sexp) (zygo.Sexp, error) {
		s.InjN++
		id := args[0].(*zygo.SexpInt).Val
		if s.InjN == s.InjK {
			if s.InjKind == 1 {
				panic(fmt.Sprintf("INJECTED-%d", id))
			}
			return zygo.SexpNull, fmt.Errorf("INJECTED-%d", id)
		}
		return args[0], nil
	})
}

func (s *SutRun) Eval(text string, budget int64) *sut.Outcome {
	return sut.Eval(s.Env, text, budget)
}

// OutStr renders an outcome: value, ERR, PANIC, BUDGET.
func OutStr(o *sut.Outcome) string {
	switch {
	case o.Panic != "":
		return "PANIC:" + o.Panic + " @" + o.Site
	case o.Budget:
		return "BUDGET"
	case o.Err != nil:
		return "ERR:" + o.ErrLine()
	case o.Val == nil:
		return "NILVALUE"
	}
	return sut.Show(o.Val)
}

func RefStr(v lang.V, err *lang.ErrV) string {
	if err != nil {
		return "ERR:" + err.Kind + ":" + err.What
	}
	return lang.Show(v)
}

// CompareRun judges one SUT outcome against the reference result. It returns
// "" when they agree, else (key, detail).
func CompareRun(refVal lang.V, refErr *lang.ErrV, refTrace []string, o *sut.Outcome, sutTrace []string) (key, detail string) {
	rs := RefStr(refVal, refErr)
	ss := OutStr(o)
	tr := func() string {
		return fmt.Sprintf("\n  ref trace: %v\n  sut trace: %v", refTrace, sutTrace)
	}
	switch {
	case o.Panic != "":
		return "escaped-panic:" + o.Site, "panic escaped EvalString: " + o.Panic + "\n  reference: " + rs
	case o.Budget:
		return "did-not-return", "step budget exceeded although the reference terminates; reference: " + rs + tr()
	case o.Err == nil && o.Val == nil:
		return "nil-value-nil-error", "EvalString returned (nil, nil); reference: " + rs
	case refErr != nil && o.Err == nil:
		return "error-swallowed", "reference raises " + rs + " but the interpreter returned " + ss + tr()
	case refErr == nil && o.Err != nil:
		return "spurious-error", "reference returns " + rs + " but the interpreter failed: " + ss + tr()
	case refErr == nil && rs != ss:
		return "value-mismatch", "reference returns " + rs + " but the interpreter returned " + ss + tr()
	}
	if strings.Join(refTrace, ",") != strings.Join(sutTrace, ",") {
		return "effect-order-mismatch", "value agrees (" + rs + ") but the trace of (tr …) effects differs" + tr()
	}
	return "", ""
}

func atRest(d sut.Depths) bool { return d.Scope == 1 && d.Addr == 0 && d.Loop == 0 }

func thorN(c *core.Ctx, quick, thorough int) int {
	if c.Thor {
		return thorough
	}
	return quick
}

// RunBattery calls every global function of the generated program again after
// the program has finished (twice, with different integer arguments; closure
// parameters get a small lambda, returned closures are applied) and judges each
// call against the reference evaluator continuing from its own final state.
func RunBattery(res *core.Result, g *lang.G, ref *lang.R, genv *lang.Env, s *SutRun, text string, args []int64, context string) {
	for _, f := range g.TopFns {
		if _, ok := genv.M[f.Name]; !ok {
			continue // not defined because the program failed earlier
		}
		for _, arg := range args {
			call := []*lang.N{lang.BatteryCall(f, arg)}
			bt := lang.Plain.Program(call)
			ref.Trace, s.Trace = nil, nil
			ref.Steps = 0
			bv, berr := ref.Run(call, genv)
			if berr != nil && berr.Kind == "budget" {
				// the reference state is now ahead of the interpreter's: stop here
				res.Ev("battery_stopped_ref_budget", 1)
				return
			}
			bo := s.Eval(bt, int64(400*ref.Steps+100000))
			res.Evals++
			res.Ev("battery_calls", 1)
			if key, detail := CompareRun(bv, berr, ref.Trace, bo, s.Trace); key != "" {
				res.Violate("battery:"+key, fmt.Sprintf("after the program%s, %s: %s", context, strings.TrimSpace(bt), detail), text+bt)
				return
			}
		}
	}
}
