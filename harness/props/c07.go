package props

import (
	"fmt"
	"math"
	"math/big"
	"strconv"
	"strings"

	"github.com/glycerine/zygomys/v9/zygo"
	"zyverif/core"
	"zyverif/sut"
)

// C07 — numbers compare and compute exactly (DESIGN §4.C07).

type c07num struct {
	kind string // int uint float char
	i    int64
	u    uint64
	f    float64
	c    rune
}

func (n c07num) sexp() zygo.Sexp {
	switch n.kind {
	case "int":
		return &zygo.SexpInt{Val: n.i}
	case "uint":
		return &zygo.SexpUint64{Val: n.u}
	case "float":
		return &zygo.SexpFloat{Val: n.f}
	}
	return &zygo.SexpChar{Val: n.c}
}
func (n c07num) String() string {
	switch n.kind {
	case "int":
		return fmt.Sprintf("int:%d", n.i)
	case "uint":
		return fmt.Sprintf("uint:%d", n.u)
	case "float":
		return fmt.Sprintf("float:%s(bits %x)", strconv.FormatFloat(n.f, 'g', -1, 64), math.Float64bits(n.f))
	}
	return fmt.Sprintf("char:%d", n.c)
}

// literal spelling of the value, "" if it has none that is safe in every context
func (n c07num) literal() string {
	switch n.kind {
	case "int":
		return strconv.FormatInt(n.i, 10)
	case "uint":
		return strconv.FormatUint(n.u, 10) + "ULL"
	case "float":
		if math.IsNaN(n.f) {
			return "NaN"
		}
		if math.IsInf(n.f, 1) {
			return "Inf"
		}
		if math.IsInf(n.f, -1) {
			return "-Inf"
		}
		if n.f == 0 && math.Signbit(n.f) {
			return ""
		}
		s := strconv.FormatFloat(n.f, 'e', -1, 64)
		return s
	}
	if n.c == 'a' {
		return "'a'"
	}
	return ""
}
func (n c07num) big() *big.Float {
	switch n.kind {
	case "int":
		return new(big.Float).SetPrec(200).SetInt64(n.i)
	case "uint":
		return new(big.Float).SetPrec(200).SetUint64(n.u)
	case "float":
		return new(big.Float).SetPrec(200).SetFloat64(n.f)
	}
	return new(big.Float).SetPrec(200).SetInt64(int64(n.c))
}
func (n c07num) asFloat() float64 {
	switch n.kind {
	case "int":
		return float64(n.i)
	case "uint":
		return float64(n.u)
	case "float":
		return n.f
	}
	return float64(n.c)
}
func (n c07num) isNaN() bool { return n.kind == "float" && math.IsNaN(n.f) }

var c07Grid = func() []c07num {
	var g []c07num
	for _, i := range []int64{math.MinInt64, math.MinInt64 + 1, -(1 << 53) - 1, -(1 << 53), -2, -1, 0, 1, 2, 3, 1<<53 - 1, 1 << 53, 1<<53 + 1, math.MaxInt64 - 1, math.MaxInt64} {
		g = append(g, c07num{kind: "int", i: i})
	}
	for _, u := range []uint64{0, 1, 2, 1 << 53, 1<<63 - 1, 1 << 63, math.MaxUint64 - 1, math.MaxUint64} {
		g = append(g, c07num{kind: "uint", u: u})
	}
	for _, f := range []float64{0, math.Copysign(0, -1), 5e-324, -5e-324, 1, -1, 1<<53 - 1, 1 << 53, 1<<53 + 2, -(1 << 53), 9223372036854775808.0, -9223372036854775808.0, math.MaxFloat64, -math.MaxFloat64, math.Inf(1), math.Inf(-1), math.NaN(), 0.5, -2.5, 3} {
		g = append(g, c07num{kind: "float", f: f})
	}
	for _, c := range []rune{0, 'a', 'b', 0x10ffff} {
		g = append(g, c07num{kind: "char", c: c})
	}
	return g
}()

func c07Random(r *core.Rng) c07num {
	bits := r.U64()
	switch r.N(8) {
	case 0: // small magnitude
		bits = uint64(int64(r.N(2001) - 1000))
	case 1: // near the limits
		bits = uint64(math.MaxInt64) + uint64(int64(r.N(7)-3))
	}
	switch r.N(4) {
	case 0:
		return c07num{kind: "int", i: int64(bits)}
	case 1:
		return c07num{kind: "uint", u: bits}
	case 2:
		f := math.Float64frombits(bits)
		if r.N(4) == 0 {
			f = float64(int64(bits >> uint(r.N(64))))
		}
		return c07num{kind: "float", f: f}
	}
	return c07num{kind: "char", c: rune(bits % 0x110000)}
}

func c07Pair(c *core.Ctx, i int) (a, b c07num, fromGrid bool) {
	n := len(c07Grid)
	if i < n*n {
		return c07Grid[i/n], c07Grid[i%n], true
	}
	r := core.NewRng(c.Seed, "C07", i, 0)
	a, b = c07Random(r), c07Random(r)
	if r.N(3) == 0 { // same kind pairs are the comparable ones: bias toward them
		b.kind = a.kind
		if r.N(4) == 0 {
			b = a
		}
	}
	return a, b, false
}

func init() {
	core.Register(&core.Prop{
		ID:    "C07",
		Level: "exploration",
		Rule: "every ordered pair of a 47-value boundary grid (int64 min/min+1/±2^53±1/±2/±1/0/max-1/max, uint64 0/1/2/2^53/2^63-1/2^63/max-1/max, float ±0/±subnormal/±1/2^53±/±2^63/±max/±Inf/NaN/fractions, chars 0/'a'/'b'/max rune) exhaustively, plus pairs of random 64-bit patterns (quick 4000, thorough 300000), each under < <= > >= == != + - * / mod; operands are injected as globals with exact bit patterns and, where a literal spelling exists, also written as literals. " +
			"Oracle: math/big order for same-type pairs, float64 conversion for int/char vs float, NaN unordered from either side, trichotomy and (< a b)==(> b a) on the interpreter's own answers, Go wrap-around for int/uint + - *, exact-or-float division, float64 for mixed arithmetic, error for integer division/mod by zero; calls with three operands (a third int or float operand) must equal the nested binary calls (left fold); every grid value compared with itself (the same object on both sides, directly and through a second variable); ordinary comparisons must be unchanged after 12000 refused comparisons and after a script overwrote, through pointers, booleans that comparisons returned — in the same and in a fresh interpreter. non-trivial = distinct pair involving at least one value within 2 of a 64-bit or 2^53 limit, NaN, Inf, or a signed zero",
		Assumptions: []string{
			"uint64 is compared only with uint64 (no other pairing is named by the statement); char vs int is judged by exact integer order (a char is its code point), which trichotomy and the (< a b)==(> b a) clause require for all operands",
			"float division by zero may yield the IEEE value or an error; MinInt64 / -1 may be Go's wrapped result or an error; char arithmetic results are not judged",
			"a literal is only used where the reader is known to spell the exact value (C12 judges the reader)",
		},
		NCases: func(c *core.Ctx) int {
			n := len(c07Grid)
			return n*n + thorN(c, 4000, 300000) + 2
		},
		Exhaustive: func(c *core.Ctx) bool { return false },
		MustSee:    []string{"comparisons", "arithmetic", "nan_pairs", "limit_pairs", "div_by_zero", "literal_forms", "folds", "same_object_comparisons", "refused_comparisons"},
		Chunk:      400,
		Run:        c07Run,
	})
}

func c07Boundary(n c07num) bool {
	near := func(x, y float64) bool { return math.Abs(x-y) <= 2 }
	switch n.kind {
	case "int":
		return n.i >= math.MaxInt64-2 || n.i <= math.MinInt64+2 || near(math.Abs(float64(n.i)), 1<<53)
	case "uint":
		return n.u >= math.MaxUint64-2 || near(float64(n.u), 1<<63) || near(float64(n.u), 1<<53)
	case "float":
		return math.IsNaN(n.f) || math.IsInf(n.f, 0) || (n.f == 0 && math.Signbit(n.f)) || math.Abs(n.f) >= 1<<53 || (n.f != 0 && math.Abs(n.f) < 1e-300)
	}
	return n.c == 0 || n.c == 0x10ffff
}

func c07Show(v zygo.Sexp) string {
	switch x := v.(type) {
	case *zygo.SexpInt:
		return fmt.Sprintf("int:%d", x.Val)
	case *zygo.SexpUint64:
		return fmt.Sprintf("uint:%d", x.Val)
	case *zygo.SexpFloat:
		if math.IsNaN(x.Val) {
			return "float:NaN"
		}
		return fmt.Sprintf("float:%x", math.Float64bits(x.Val))
	case *zygo.SexpBool:
		return fmt.Sprint(x.Val)
	case *zygo.SexpChar:
		return fmt.Sprintf("char:%d", x.Val)
	case nil:
		return "<nil>"
	}
	return fmt.Sprintf("%T:%s", v, v.SexpString(nil))
}

func c07fl(f float64) string {
	if math.IsNaN(f) {
		return "float:NaN"
	}
	return fmt.Sprintf("float:%x", math.Float64bits(f))
}

var c07env *zygo.Zlisp

// c07LongRun: state that a comparison may leave behind must not change later comparisons. (1) thousands of
// comparisons that are refused (operands that cannot be compared) followed by ordinary ones, in the same and
// in a fresh interpreter; (2) a script changing, through a pointer, a boolean that a comparison returned.
func c07LongRun(c *core.Ctx, k int) *core.Result {
	res := &core.Result{Nontrivial: true, Input: fmt.Sprintf("long-run scenario %d", k)}
	res.Hash = core.HashOf(res.Input)
	env := zygo.NewZlisp()
	env.StandardSetup()
	probe := func(e *zygo.Zlisp, when string) bool {
		for _, q := range [][2]string{{"(< 1 2)", "true"}, {"(> 1 2)", "false"}, {"(== 3 3.0)", "true"}, {"(!= 3 4)", "true"}, {"(<= 2 2)", "true"}, {"(>= 1 2)", "false"},
			{"(hget (hash 5 \"five\" 6 \"six\") 6)", "\"six\""}, {"(== [1 [2 3]] [1 [2 3]])", "true"}, {"(== \"a\" \"b\")", "false"}, {"{1 < 2 and 2 < 3}", "true"}} {
			o := sut.Eval(e, q[0]+"\n", 100000)
			res.Evals++
			got := "ERR"
			if o.Panic != "" {
				res.Violate("escaped-panic:"+o.Site, o.Panic, q[0])
				return false
			}
			if o.Err == nil && o.Val != nil {
				got = o.Val.SexpString(nil)
			}
			if got != q[1] {
				res.Violate("comparison-changed-by-earlier-comparisons", fmt.Sprintf("%s: %s must give %s, got %s (%v)", when, q[0], q[1], got, o.Err), res.Input)
				return false
			}
		}
		return true
	}
	if !probe(env, "at the start") {
		return res
	}
	switch k {
	case 0:
		n := 12000
		for j := 0; j < n; j++ {
			t := []string{"(< 1 \"s\")", "(== 2.5 \"s\")", "(< [1 [2 \"x\"]] [1 [2 3]])", "(< 1 12ULL)", "(> (hash a: 1) 3)", "(< (quote a) 1)"}[j%6]
			o := sut.Eval(env, t+"\n", 100000)
			res.Evals++
			res.Ev("refused_comparisons", 1)
			if o.Panic != "" {
				res.Violate("escaped-panic:"+o.Site, o.Panic, t)
				return res
			}
		}
		if probe(env, fmt.Sprintf("after %d refused comparisons", n)) {
			fresh := zygo.NewZlisp()
			fresh.StandardSetup()
			probe(fresh, fmt.Sprintf("in a fresh interpreter after %d refused comparisons in another one", n))
		}
	case 1:
		for _, t := range []string{"(def ok (< 1 2)) (def pok (& ok)) (derefSet pok false) ok", "(def no (> 1 2)) (def pno (& no)) (derefSet pno true) no", "(def eq (== 1 1)) (derefSet (& eq) false)", "(def t1 (and true (< 1 2))) (derefSet (& t1) false)", "(def arr [(< 1 2) (> 1 2)]) (aset arr 0 false) (aset arr 1 true)"} {
			sut.Eval(env, t+"\n", 100000)
			res.Evals++
			res.Ev("refused_comparisons", 1)
		}
		if probe(env, "after a script overwrote, through pointers, booleans that comparisons had returned") {
			fresh := zygo.NewZlisp()
			fresh.StandardSetup()
			probe(fresh, "in a fresh interpreter after another one overwrote comparison results through pointers")
		}
	}
	return res
}

func c07Run(c *core.Ctx, i int) *core.Result {
	if base := len(c07Grid)*len(c07Grid) + thorN(c, 4000, 300000); i >= base {
		return c07LongRun(c, i-base)
	}
	a, b, fromGrid := c07Pair(c, i)
	res := &core.Result{Input: fmt.Sprintf("a=%v b=%v", a, b)}
	res.Hash = core.HashOf(res.Input)
	res.Nontrivial = c07Boundary(a) || c07Boundary(b)
	if c07env == nil {
		c07env = zygo.NewZlisp()
	}
	env := c07env
	env.AddGlobal("va", a.sexp())
	env.AddGlobal("vb", b.sexp())
	forms := [][2]string{{"va", "vb"}}
	// (+ Inf x) is read as the call of the literal +Inf (the reader glues a sign
	// to a following Inf across the blank) — a reader matter left to C12
	infFirst := a.kind == "float" && (math.IsInf(a.f, 0) || math.IsNaN(a.f))
	if la, lb := a.literal(), b.literal(); la != "" && lb != "" && !infFirst && (fromGrid || i%4 == 0) {
		forms = append(forms, [2]string{la, lb})
		res.Ev("literal_forms", 1)
	}
	eval := func(text string) (string, *sut.Outcome) {
		o := sut.Eval(env, text, 100000)
		res.Evals++
		switch {
		case o.Panic != "":
			return "PANIC", o
		case o.Err != nil:
			return "ERR", o
		}
		return c07Show(o.Val), o
	}
	// the same object on both sides: an operand compared with itself (NaN is unequal to itself too)
	if fromGrid && i%len(c07Grid) == 0 {
		for _, op := range []string{"<", "<=", ">", ">=", "==", "!="} {
			want := op == "<=" || op == ">=" || op == "=="
			if a.isNaN() {
				want = op == "!="
			}
			for _, text := range []string{"(" + op + " va va)\n", "(let [vsame va] (" + op + " vsame vsame))\n"} {
				g, o := eval(text)
				res.Ev("same_object_comparisons", 1)
				if g == "PANIC" {
					res.Violate("escaped-panic:"+o.Site, o.Panic, text)
				} else if g != fmt.Sprint(want) {
					res.Violate("compare:same-object:"+a.kind+":"+op, fmt.Sprintf("%s with va = %v must be %v, got %s", strings.TrimSpace(text), a, want, g), text+" with "+res.Input)
				}
			}
		}
	}
	typeKey := a.kind + "/" + b.kind
	nan := a.isNaN() || b.isNaN()
	if nan {
		res.Ev("nan_pairs", 1)
	}
	if res.Nontrivial {
		res.Ev("limit_pairs", 1)
	}
	comparable := a.kind == b.kind || (a.kind != "uint" && b.kind != "uint")
	for _, f := range forms {
		x, y := f[0], f[1]
		lit := ""
		if x != "va" {
			lit = "literal:"
		}
		if comparable {
			var cmp int
			if !nan {
				if a.kind == "float" || b.kind == "float" {
					af, bf := a.asFloat(), b.asFloat()
					switch {
					case af < bf:
						cmp = -1
					case af > bf:
						cmp = 1
					}
				} else {
					cmp = a.big().Cmp(b.big())
				}
			}
			got := map[string]string{}
			for _, op := range []string{"<", "<=", ">", ">=", "==", "!="} {
				want := false
				if nan {
					want = op == "!="
				} else {
					switch op {
					case "<":
						want = cmp < 0
					case "<=":
						want = cmp <= 0
					case ">":
						want = cmp > 0
					case ">=":
						want = cmp >= 0
					case "==":
						want = cmp == 0
					case "!=":
						want = cmp != 0
					}
				}
				text := "(" + op + " " + x + " " + y + ")\n"
				g, o := eval(text)
				got[op] = g
				res.Ev("comparisons", 1)
				if g == "PANIC" {
					res.Violate("escaped-panic:"+o.Site, o.Panic, text)
				} else if g != fmt.Sprint(want) {
					cls := "order"
					if nan {
						cls = "NaN"
					}
					res.Violate(fmt.Sprintf("%scompare:%s:%s:%s", lit, cls, typeKey, op), fmt.Sprintf("(%s %v %v) must be %v, got %s", op, a, b, want, g), text+" with "+res.Input)
				}
			}
			if !nan {
				n := 0
				for _, op := range []string{"<", "==", ">"} {
					if got[op] == "true" {
						n++
					}
				}
				if n != 1 {
					res.Violate("trichotomy:"+typeKey, fmt.Sprintf("exactly one of < == > must hold for %v, %v: got <:%s ==:%s >:%s", a, b, got["<"], got["=="], got[">"]), res.Input)
				}
			}
			// symmetry on the interpreter's own answers
			g2, _ := eval("(> " + y + " " + x + ")\n")
			if g2 != got["<"] && g2 != "PANIC" {
				res.Violate("symmetry:"+typeKey, fmt.Sprintf("(< a b)=%s but (> b a)=%s for a=%v b=%v", got["<"], g2, a, b), res.Input)
			}
		}
		// arithmetic
		intint := a.kind == "int" && b.kind == "int"
		uu := a.kind == "uint" && b.kind == "uint"
		mixed := (a.kind == "int" || a.kind == "float") && (b.kind == "int" || b.kind == "float") && !intint
		if !(intint || uu || mixed) {
			continue
		}
		for _, op := range []string{"+", "-", "*", "/"} {
			var wants []string
			switch {
			case intint:
				switch op {
				case "+":
					wants = []string{fmt.Sprintf("int:%d", a.i+b.i)}
				case "-":
					wants = []string{fmt.Sprintf("int:%d", a.i-b.i)}
				case "*":
					wants = []string{fmt.Sprintf("int:%d", a.i*b.i)}
				case "/":
					switch {
					case b.i == 0:
						wants = []string{"ERR"}
						res.Ev("div_by_zero", 1)
					case a.i == math.MinInt64 && b.i == -1:
						wants = []string{fmt.Sprintf("int:%d", int64(math.MinInt64)), "ERR", c07fl(9223372036854775808.0)}
					case a.i%b.i == 0:
						wants = []string{fmt.Sprintf("int:%d", a.i/b.i)}
					default:
						wants = []string{c07fl(float64(a.i) / float64(b.i))}
					}
				}
			case uu:
				switch op {
				case "+":
					wants = []string{fmt.Sprintf("uint:%d", a.u+b.u)}
				case "-":
					wants = []string{fmt.Sprintf("uint:%d", a.u-b.u)}
				case "*":
					wants = []string{fmt.Sprintf("uint:%d", a.u*b.u)}
				case "/":
					switch {
					case b.u == 0:
						wants = []string{"ERR"}
						res.Ev("div_by_zero", 1)
					case a.u%b.u == 0:
						wants = []string{fmt.Sprintf("uint:%d", a.u/b.u)}
					default:
						wants = []string{c07fl(float64(a.u) / float64(b.u))}
					}
				}
			default:
				af, bf := a.asFloat(), b.asFloat()
				var r float64
				switch op {
				case "+":
					r = af + bf
				case "-":
					r = af - bf
				case "*":
					r = af * bf
				case "/":
					r = af / bf
				}
				wants = []string{c07fl(r)}
				if op == "/" && bf == 0 {
					wants = append(wants, "ERR")
				}
			}
			text := "(" + op + " " + x + " " + y + ")\n"
			g, o := eval(text)
			res.Ev("arithmetic", 1)
			ok := false
			for _, w := range wants {
				if w == g {
					ok = true
				}
			}
			if g == "PANIC" {
				res.Violate("escaped-panic:"+o.Site, o.Panic, text)
			} else if !ok {
				res.Violate(fmt.Sprintf("%sarith:%s:%s", lit, op, typeKey), fmt.Sprintf("(%s %v %v) must be %v, got %s", op, a, b, wants, g), text+" with "+res.Input)
			}
		}
		// more than two operands fold from the left: (op a b c) is (op (op a b) c), whatever the
		// types of the later operands (the binary steps themselves are judged above)
		for _, op := range []string{"+", "-", "*", "/"} {
			for _, third := range []string{"0.0", "1", "1.5", "-2"} {
				g3, o3 := eval("(" + op + " " + x + " " + y + " " + third + ")\n")
				g2, _ := eval("(" + op + " (" + op + " " + x + " " + y + ") " + third + ")\n")
				res.Ev("folds", 1)
				if g3 == "PANIC" {
					res.Violate("escaped-panic:"+o3.Site, o3.Panic, res.Input)
				} else if g3 != g2 && g2 != "PANIC" {
					res.Violate(fmt.Sprintf("%sfold:%s:%s", lit, op, typeKey), fmt.Sprintf("(%s %v %v %s) gives %s but (%s (%s %v %v) %s) gives %s", op, a, b, third, g3, op, op, a, b, third, g2), res.Input)
				}
			}
		}
		if intint {
			text := "(mod " + x + " " + y + ")\n"
			g, o := eval(text)
			res.Ev("arithmetic", 1)
			wants := []string{"ERR"}
			if b.i == 0 {
				res.Ev("div_by_zero", 1)
			} else if a.i == math.MinInt64 && b.i == -1 {
				wants = []string{"int:0", "ERR"}
			} else {
				wants = []string{fmt.Sprintf("int:%d", a.i%b.i)}
			}
			ok := false
			for _, w := range wants {
				if w == g {
					ok = true
				}
			}
			if g == "PANIC" {
				res.Violate("escaped-panic:"+o.Site, o.Panic, text)
			} else if !ok {
				res.Violate(lit+"arith:mod:int/int", fmt.Sprintf("(mod %v %v) must be %v, got %s", a, b, wants, g), text+" with "+res.Input)
			}
		}
	}
	return res
}
