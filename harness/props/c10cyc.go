package props

import (
	"fmt"
	"strings"

	"github.com/glycerine/zygomys/v9/zygo"
	"zyverif/core"
)

// Records that contain themselves (directly, through a second record, through a slice), converted
// explicitly and as receiver / argument of a Go method: the conversion may give the shared object the
// property asks for or report an error; what it must never do is run away (the worker process dying
// of a Go stack overflow is seen by the driver as host-killed). Also wrong-kind values that used to be
// dropped without any report: unsigned values, integers that do not fit the field.
const c10CycCases = 8

type C10Node struct {
	Name string     `json:"name"`
	Next *C10Node   `json:"next"`
	Kids []*C10Node `json:"kids"`
	Tiny int8       `json:"tiny"`
	Mid  int32      `json:"mid"`
	Big  uint64     `json:"big"`
}

func (n *C10Node) Label() string            { return "node:" + n.Name }
func (n *C10Node) Echo(x *C10Node) *C10Node { return x }
func (n *C10Node) Show() string             { return fmt.Sprintf("%s/%d/%d/%d", n.Name, n.Tiny, n.Mid, n.Big) }

var c10CycTexts = []struct{ setup, act string }{
	{`(def a (c10node name:"a")) (hset a next: a)`, "(togo a)"},
	{`(def a (c10node name:"a")) (def b (c10node name:"b" next:a)) (hset a next: b)`, "(togo a)"},
	{`(def a (c10node name:"a")) (hset a kids: [a])`, "(togo a)"},
	{`(def a (c10node name:"a")) (hset a next: a)`, "(_method a Label:)"},
	{`(def a (c10node name:"a")) (hset a next: a)`, `(_method (c10node name:"x") Echo: a)`},
	{`(def a (c10node name:"a")) (def b (c10node name:"b" kids:[a])) (hset a kids: [b b])`, `(_method (c10node name:"x" next:a) Label:)`},
	{`(def a (c10node name:"a")) (hset a next: a)`, "(msgpack a)"},
	{`(def a (c10node name:"a")) (hset a next: a)`, "(raw2str (json a))"},
}

func c10CycCase(c *core.Ctx, k int) *core.Result {
	c10Register()
	res := &core.Result{Nontrivial: true}
	t := c10CycTexts[k]
	res.Input = t.setup + "\n" + t.act
	res.Hash = core.HashOf(res.Input)
	s := NewSutRun(true)
	if o := s.Eval(t.setup+"\n", 0); o.Err != nil || o.Panic != "" {
		res.Violate("setup-failed", OutStr(o), res.Input)
		return res
	}
	core.Beat()
	o := s.Eval(t.act+"\n", 2000000)
	res.Evals++
	res.Ev("cyclic_records", 1)
	if o.Panic != "" {
		res.Violate("escaped-panic:"+o.Site, o.Panic, res.Input)
		return res
	}
	// the interpreter must still work, and ordinary conversions with it
	after := s.Eval(`(_method (c10node name:"fine" next:(c10node name:"n2")) Label:)`+"\n", 0)
	if got := OutStr(after); !strings.Contains(got, "node:fine") {
		res.Violate("conversion-broken-after-a-cyclic-record", "after "+t.act+" an ordinary method call gives "+got, res.Input)
		return res
	}
	// values that do not fit the field's kind or range are reported, never stored changed or dropped
	for _, q := range []struct{ text, wantShow string }{
		{`(_method (c10node name:"v" tiny:100 mid:70000) Show:)`, "v/100/70000/0"},
		{`(_method (c10node name:"v" tiny:300) Show:)`, "ERR"},
		{`(_method (c10node name:"v" tiny:-129) Show:)`, "ERR"},
		{`(_method (c10node name:"v" mid:4294967297) Show:)`, "ERR"},
		{`(_method (c10node name:"x") Echo: (c10inner n: 7))`, "ERR"},
		{`(_method (c10node name:"x") Echo: (c10inner name:"q"))`, "ERR"},
		{`(_method (c10outer) EchoIn: (c10node name:"q"))`, "ERR"},
		{`(_method (c10outer) EchoIn: (c10node name:"z" tiny:3))`, "ERR"},
		{`(_method (c10node name:"x") Echo: (c10node name:"ok" tiny:3))`, "ok"},
		{`(_method (c10node name:"v" big:5ULL) Show:)`, "v/0/0/5"},
		{`(_method (c10node name:"v" big:18446744073709551615ULL) Show:)`, "v/0/0/18446744073709551615"},
	} {
		qo := s.Eval(q.text+"\n", 0)
		res.Evals++
		res.Ev("range_and_kind_probes", 1)
		got := OutStr(qo)
		if qo.Panic != "" {
			res.Violate("escaped-panic:"+qo.Site, qo.Panic, q.text)
			return res
		}
		if q.wantShow == "ERR" {
			if qo.Err == nil {
				res.Violate("wrong-kind-or-range-accepted-silently", fmt.Sprintf("%s must be reported as an error (the value does not fit the Go field or parameter), got %s", q.text, got), q.text)
				return res
			}
			continue
		}
		if qo.Err != nil || !strings.Contains(got, q.wantShow) {
			res.Violate("record-to-go-differs:kind-or-range", fmt.Sprintf("%s must show %s, got %s", q.text, q.wantShow, got), q.text)
			return res
		}
	}
	return res
}

func c10RegisterNode() {
	zygo.GoStructRegistry.RegisterUserdef(&zygo.RegisteredType{GenDefMap: true, Factory: func(env *zygo.Zlisp, h *zygo.SexpHash) (interface{}, error) {
		return &C10Node{}, nil
	}}, true, "c10node")
}
