package props

import (
	"fmt"
	"strconv"
	"strings"
	"unicode"

	"zyverif/core"
)

// C18 — package members are private unless capitalised (DESIGN §4.C18).

type c18node struct {
	kind string // val fn hash pkg
	val  int
	kids map[string]*c18node
	ord  []string
}

var c18ValNames = []string{"Pub", "priv", "Val", "x", "_u", "Écrit", "écrit", "Zed", "q9", "A", "b"}
var c18HashNames = []string{"H", "hh", "Map", "tbl"}
var c18PkgNames = []string{"Inner", "low", "Sub", "deep"}
var c18FnNames = []string{"Fn", "fun", "Calc", "calc"}

type c18gen struct {
	r    *core.Rng
	next int
}

func (g *c18gen) val() *c18node {
	g.next++
	return &c18node{kind: "val", val: 1000 + g.next*7}
}

func (g *c18gen) pick(pool []string, used map[string]bool) string {
	for try := 0; try < 20; try++ {
		n := pool[g.r.N(len(pool))]
		if !used[n] {
			used[n] = true
			return n
		}
	}
	return ""
}

func (g *c18gen) hash(d int) *c18node {
	n := &c18node{kind: "hash", kids: map[string]*c18node{}}
	used := map[string]bool{}
	for i, m := 0, 1+g.r.N(3); i < m; i++ {
		name := g.pick([]string{"a", "B", "sub", "K", "z"}, used)
		if name == "" {
			continue
		}
		if d > 0 && g.r.N(3) == 0 {
			n.kids[name] = g.hash(d - 1)
		} else {
			n.kids[name] = g.val()
		}
		n.ord = append(n.ord, name)
	}
	return n
}

func (g *c18gen) pkg(d int) *c18node {
	n := &c18node{kind: "pkg", kids: map[string]*c18node{}}
	used := map[string]bool{}
	add := func(name string, k *c18node) {
		if name != "" {
			n.kids[name] = k
			n.ord = append(n.ord, name)
		}
	}
	for i, m := 0, 2+g.r.N(3); i < m; i++ {
		add(g.pick(c18ValNames, used), g.val())
	}
	for i, m := 0, g.r.N(3); i < m; i++ {
		add(g.pick(c18HashNames, used), g.hash(1))
	}
	for i, m := 0, g.r.N(3); i < m; i++ {
		g.next++
		add(g.pick(c18FnNames, used), &c18node{kind: "fn", val: 5000 + g.next*3})
	}
	if d > 0 {
		for i, m := 0, g.r.N(3); i < m; i++ {
			add(g.pick(c18PkgNames, used), g.pkg(d-1))
		}
	}
	return n
}

func c18Src(name string, n *c18node) string {
	switch n.kind {
	case "val":
		return fmt.Sprintf("(def %s %d)", name, n.val)
	case "fn":
		return fmt.Sprintf("(defn %s [] %d)", name, n.val)
	case "hash":
		return fmt.Sprintf("(def %s %s)", name, c18HashSrc(n))
	}
	s := fmt.Sprintf("(def %s (package %q", name, name)
	for _, k := range n.ord {
		s += " " + c18Src(k, n.kids[k])
	}
	// inside code: capitalised getters and setters for every value member
	for _, k := range n.ord {
		if n.kids[k].kind == "val" {
			s += fmt.Sprintf(" (defn Get_%s [] %s) (defn Set_%s [nv] (set %s nv))", c18Ident(k), k, c18Ident(k), k)
		}
	}
	// inside code that is handed its argument by the caller
	s += " (defn Ident9 [x9] (+ x9 0)) (defn Sum9 [arr9] (+ (aget arr9 0) 0)) (defn First9 [l9] (+ 0 (first l9))) (defn Lz9 [#x9] (+ 0 (force #x9)))"
	return s + "))"
}

func c18Ident(k string) string {
	return strings.NewReplacer("É", "E", "é", "e").Replace(k)
}

func c18HashSrc(n *c18node) string {
	s := "(hash"
	for _, k := range n.ord {
		c := n.kids[k]
		if c.kind == "val" {
			s += fmt.Sprintf(" %s: %d", k, c.val)
		} else {
			s += fmt.Sprintf(" %s: %s", k, c18HashSrc(c))
		}
	}
	return s + ")"
}

type c18path struct {
	parts []string
	leaf  *c18node
	allow bool
	shape string
}

func c18Upper(s string) bool { return unicode.IsUpper([]rune(s)[0]) }

// the visibility model: a dot path is allowed iff every package-member hop
// that is not itself a package is capitalised (at the final position and
// before descending into a hash); nested packages are traversable under any
// case; keys inside an already reachable hash are not members.
func c18Walk(n *c18node, prefix []string, shape string, inHash bool, allowed bool, out *[]c18path) {
	for _, k := range n.ord {
		c := n.kids[k]
		p := append(append([]string{}, prefix...), k)
		sh := shape + c.kind[:1]
		switch {
		case inHash:
			if c.kind == "val" {
				*out = append(*out, c18path{p, c, allowed, sh})
			} else {
				c18Walk(c, p, sh, true, allowed, out)
			}
		case c.kind == "val" || c.kind == "fn":
			*out = append(*out, c18path{p, c, allowed && c18Upper(k), sh})
		case c.kind == "hash":
			*out = append(*out, c18path{p, c, allowed && c18Upper(k), sh}) // the hash itself as last hop
			c18Walk(c, p, sh, true, allowed && c18Upper(k), out)
		case c.kind == "pkg":
			c18Walk(c, p, sh, false, allowed, out)
		}
	}
}

func init() {
	core.Register(&core.Prop{
		ID:    "C18",
		Level: "exploration",
		Rule: "random package trees (packages nested to depth 3, value / function / hash members with nested hashes, names with upper-case, lower-case, underscore and non-ASCII first runes), reached through the package, an alias of it, an alias of an inner package and a hash holding the package. Every member path is accessed from outside by a read route (operand of a builtin, right-hand side of def and let, argument, infix operand, call through the path for functions) and every value member directly under a package by the write routes (set p.x v) and {p.x = v}, verified through a capitalised getter defined inside the package; every lower-case member that is not a plain value (nested package, function, hash) is assigned from outside ((set p.low v), {p.low = v}, another package as the value) and must refuse, the nested package's own getter still giving its canary; every value path is also handed as the caller's argument to a function defined inside a package ((P.Sub.Ident9 P.Sub.x)); private paths, spelled the way outside code and the way inside code would, are hidden in an array, a list or a lazy argument handed to the package's own functions; the private members of an enclosing package are named through each nested package that does not define them (P.Inner.secret: read, def, set, infix assignment, call, hash descent); generic accessors (hget in all its spellings, hpair) handed the package value itself must never return a private member's canary; inside code (public getter/setter) must keep full access to private members when called from outside. " +
			"Oracle: visibility model over the tree (capitalisation decides at the last hop and before entering a hash; nested packages traversable under any case; keys inside a reachable hash are not members): allowed => the member's unique canary integer is returned / the write takes effect; forbidden => an error, the canary never appears and the value is unchanged. non-trivial = distinct tree with >=1 nested package, >=1 hash member and both an allowed and a forbidden path",
		Assumptions: []string{
			"dot-symbols self-evaluate until used as an operand, so a path is always observed through a consuming route",
		},
		NCases:  func(c *core.Ctx) int { return thorN(c, 400, 8000) },
		Chunk:   40,
		MustSee: []string{"reads_allowed", "reads_forbidden", "writes_allowed", "writes_forbidden", "inside_code_accesses", "calls_through_path", "paths_as_arguments_of_inside_functions", "outer_private_through_nested_package", "paths_hidden_in_containers"},
		Run:     c18Run,
	})
}

func c18Run(c *core.Ctx, i int) *core.Result {
	g := &c18gen{r: core.NewRng(c.Seed, "C18", i, 0)}
	tree := g.pkg(2)
	res := &core.Result{}
	var paths []c18path
	c18Walk(tree, nil, "", false, true, &paths)
	setup := c18Src("P", tree) + "\n(def Q P)\n(def hp (hash pk: P))\n"
	// alias of the first nested package, if any
	innerName := ""
	for _, k := range tree.ord {
		if tree.kids[k].kind == "pkg" {
			innerName = k
			break
		}
	}
	if innerName != "" {
		setup += fmt.Sprintf("(def R P.%s)\n", innerName)
	}
	res.Input = setup
	res.Hash = core.HashOf(setup)
	hasAllowed, hasForbidden, hasHash := false, false, false
	for _, p := range paths {
		if p.allow {
			hasAllowed = true
		} else {
			hasForbidden = true
		}
		if strings.Contains(p.shape, "h") {
			hasHash = true
		}
	}
	res.Nontrivial = innerName != "" && hasHash && hasAllowed && hasForbidden
	s := NewSutRun(true)
	if o := s.Eval(setup, 0); o.Err != nil || o.Panic != "" {
		res.Violate("setup-failed", OutStr(o), setup)
		return res
	}
	readRoutes := []string{"(+ %s 0)", "(begin (def tmp1 %s) (+ tmp1 0))", "(let [w %s] (+ w 0))", "((fn [q] (+ q 0)) %s)", "{%s + 0}"}
	roots := []string{"P", "Q", "hp.pk"}
	for _, p := range paths {
		root := roots[g.r.N(len(roots))]
		dot := root + "." + strings.Join(p.parts, ".")
		if innerName != "" && p.parts[0] == innerName && len(p.parts) > 1 && g.r.N(3) == 0 {
			dot = "R." + strings.Join(p.parts[1:], ".")
		}
		var text, want string
		canary := strconv.Itoa(p.leaf.val)
		switch p.leaf.kind {
		case "val":
			text = fmt.Sprintf(readRoutes[g.r.N(len(readRoutes))], dot)
			want = canary
		case "fn":
			text = "(+ 0 (" + dot + "))"
			want = canary
			res.Ev("calls_through_path", 1)
		case "hash":
			// the hash itself as the last hop: observe one of its values through hget
			first := p.leaf.ord[0]
			if p.leaf.kids[first].kind != "val" {
				continue
			}
			text = fmt.Sprintf("(begin (def th %s) (hget th %s:))", dot, first)
			want = strconv.Itoa(p.leaf.kids[first].val)
			canary = want
		}
		o := s.Eval(text+"\n", 0)
		res.Evals++
		if o.Panic != "" {
			res.Violate("escaped-panic:"+o.Site, o.Panic, setup+text)
			return res
		}
		got := OutStr(o)
		if p.allow {
			res.Ev("reads_allowed", 1)
			if got != want {
				res.Violate("public-member-unreachable:shape-"+p.shape, fmt.Sprintf("%s is public at every hop and must give %s, got %s", text, want, got), setup+text)
				return res
			}
		} else {
			res.Ev("reads_forbidden", 1)
			if o.Err == nil || strings.Contains(got, canary) {
				res.Violate("private-member-read:shape-"+p.shape, fmt.Sprintf("%s reaches a private member (canary %s) from outside and must fail, got %s", text, canary, got), setup+text)
				return res
			}
		}
	}
	// a path handed as the argument of a function defined inside a package (the one holding the member,
	// or the root): the argument is the caller's expression, so the caller's visibility applies
	for _, p := range paths {
		if p.leaf.kind != "val" {
			continue
		}
		node, depth := tree, 0
		for depth < len(p.parts)-1 && node.kids[p.parts[depth]].kind == "pkg" {
			node = node.kids[p.parts[depth]]
			depth++
		}
		root := roots[g.r.N(len(roots))]
		holder := root
		if depth > 0 && g.r.N(3) != 0 {
			holder += "." + strings.Join(p.parts[:depth], ".")
		}
		dot := roots[g.r.N(len(roots))] + "." + strings.Join(p.parts, ".")
		text := fmt.Sprintf("(%s.Ident9 %s)", holder, dot)
		canary := strconv.Itoa(p.leaf.val)
		o := s.Eval(text+"\n", 0)
		res.Evals++
		res.Ev("paths_as_arguments_of_inside_functions", 1)
		if o.Panic != "" {
			res.Violate("escaped-panic:"+o.Site, o.Panic, setup+text)
			return res
		}
		got := OutStr(o)
		if p.allow && got != canary {
			res.Violate("public-member-unreachable:argument-of-inside-function", fmt.Sprintf("%s passes a public member to the package's own function and must give %s, got %s", text, canary, got), setup+text)
			return res
		}
		if !p.allow && (o.Err == nil || strings.Contains(got, canary)) {
			res.Violate("private-member-read:argument-of-inside-function", fmt.Sprintf("%s names a private member (canary %s) in the caller's argument and must fail, got %s", text, canary, got), setup+text)
			return res
		}
	}
	// an outer package's private members named through a nested package (P.Inner.secret where secret
	// belongs to P, not to Inner): never readable, never writable
	var outer func(n *c18node, prefix []string) bool
	outer = func(n *c18node, prefix []string) bool {
		for _, y := range n.ord {
			if n.kids[y].kind != "pkg" {
				continue
			}
			for _, m := range n.ord {
				c := n.kids[m]
				if c18Upper(m) || n.kids[y].kids[m] != nil || c.kind == "pkg" {
					continue
				}
				root := roots[g.r.N(len(roots))]
				base := root + "." + strings.Join(append(append([]string{}, prefix...), y, m), ".")
				var texts []string
				canary := strconv.Itoa(c.val)
				switch c.kind {
				case "val":
					texts = []string{"(+ 0 " + base + ")", "(def stolen9 " + base + ")", "(set " + base + " 999)", "{" + base + " = 999}"}
				case "fn":
					texts = []string{"(+ 0 (" + base + "))"}
				case "hash":
					first := c.ord[0]
					if c.kids[first].kind != "val" {
						continue
					}
					canary = strconv.Itoa(c.kids[first].val)
					texts = []string{"(+ 0 " + base + "." + first + ")", "(begin (def th9 " + base + ") (hget th9 " + first + ":))"}
				}
				for _, text := range texts {
					w := NewSutRun(true)
					w.Eval(setup, 0)
					o := w.Eval(text+"\n", 0)
					res.Evals++
					res.Ev("outer_private_through_nested_package", 1)
					if o.Panic != "" {
						res.Violate("escaped-panic:"+o.Site, o.Panic, setup+text)
						return false
					}
					if got := OutStr(o); o.Err == nil || strings.Contains(got, canary) {
						res.Violate("private-member-read:outer-member-through-nested-package", fmt.Sprintf("%s names the private member %s of the enclosing package through the nested package %s and must fail, got %s", text, m, y, got), setup+text)
						return false
					}
					if c.kind == "val" {
						getter := "(" + strings.Join(append(append([]string{"P"}, prefix...), "Get_"+c18Ident(m)), ".") + ")"
						if now := OutStr(w.Eval(getter+"\n", 0)); now != canary {
							res.Violate("private-member-written:outer-member-through-nested-package", fmt.Sprintf("after %s the inside getter %s gives %s, the member was %s", text, getter, now, canary), setup+text)
							return false
						}
					}
				}
			}
			if !outer(n.kids[y], append(append([]string{}, prefix...), y)) {
				return false
			}
		}
		return true
	}
	if !outer(tree, nil) {
		return res
	}
	// a path written by the caller but hidden in an array, a list or a lazy argument, and only looked at by the
	// package's own function: it is still the caller's path (names that resolve only inside the package must
	// not resolve, the caller's visibility applies to full paths)
	nh := 0
	for _, p := range paths {
		if p.allow || nh >= 6 || len(p.parts) > 2 {
			continue
		}
		var inside string // the path as code inside P would write it
		canary := ""
		switch {
		case p.leaf.kind == "val" && len(p.parts) == 1:
			inside, canary = "."+p.parts[0], strconv.Itoa(p.leaf.val)
		case p.leaf.kind == "val" && len(p.parts) == 2 && tree.kids[p.parts[0]].kind == "hash":
			inside, canary = p.parts[0]+"."+p.parts[1], strconv.Itoa(p.leaf.val)
		default:
			continue
		}
		nh++
		full := "P." + strings.Join(p.parts, ".")
		for _, text := range []string{
			"(P.Sum9 [" + inside + " 0])", "(P.First9 (list " + inside + "))", "(P.Lz9 " + inside + ")",
			"(P.Sum9 [" + full + " 0])", "(P.First9 (list " + full + "))", "(P.Lz9 " + full + ")", "(Q.Sum9 [0 " + full + "])",
		} {
			o := s.Eval(text+"\n", 0)
			res.Evals++
			res.Ev("paths_hidden_in_containers", 1)
			if o.Panic != "" {
				res.Violate("escaped-panic:"+o.Site, o.Panic, setup+text)
				return res
			}
			if got := OutStr(o); o.Err == nil && strings.Contains(got, canary) {
				res.Violate("private-member-read:path-hidden-in-container-or-lazy-argument", fmt.Sprintf("%s is written outside the package and hands out the private member's value %s: %s", text, canary, got), setup+text)
				return res
			}
		}
	}
	// generic accessors handed the package value itself (not a dot path, so they are free to fail;
	// what they must never do is hand out a private member's value)
	na := 0
	for _, p := range paths {
		if p.allow || na >= 8 || (p.leaf.kind != "val" && p.leaf.kind != "fn") {
			continue
		}
		na++
		holder := roots[g.r.N(len(roots))]
		if len(p.parts) > 1 {
			holder += "." + strings.Join(p.parts[:len(p.parts)-1], ".")
		}
		last := p.parts[len(p.parts)-1]
		canary := strconv.Itoa(p.leaf.val)
		for _, acc := range []string{"(hget %s %s:)", "(hget %s \"%s\")", "(hget %s %s: 0)", "(hget %s (quote %s))", "((hget %s %s:))", "(apply hget [%s (quote %s)])", "(hpair %s 0)", "(first (hpair %s 1))"} {
			text := fmt.Sprintf(acc, holder, last)
			if strings.Count(acc, "%s") == 1 {
				text = fmt.Sprintf(acc, holder)
			}
			o := s.Eval(text+"\n", 0)
			res.Evals++
			res.Ev("accessor_on_package_value", 1)
			if o.Panic != "" {
				res.Violate("escaped-panic:"+o.Site, o.Panic, setup+text)
				return res
			}
			if got := OutStr(o); o.Err == nil && strings.Contains(got, canary) {
				res.Violate("private-member-read:accessor-on-package-value", fmt.Sprintf("%s hands out the private member %s (canary %s): %s", text, last, canary, got), setup+text)
				return res
			}
		}
	}
	// writes: value members directly under a package (any depth), verified through the inside getter
	nw := 0
	for _, p := range paths {
		if p.leaf.kind != "val" || strings.Contains(p.shape, "h") || nw >= 6 {
			continue
		}
		nw++
		root := roots[g.r.N(len(roots))]
		dot := root + "." + strings.Join(p.parts, ".")
		last := p.parts[len(p.parts)-1]
		getter := "(" + root + "." + strings.Join(append(append([]string{}, p.parts[:len(p.parts)-1]...), "Get_"+c18Ident(last)), ".") + ")"
		setter := "(" + root + "." + strings.Join(append(append([]string{}, p.parts[:len(p.parts)-1]...), "Set_"+c18Ident(last)), ".") + " 4242)"
		w := NewSutRun(true)
		w.Eval(setup, 0)
		wt := fmt.Sprintf([]string{"{%s = 999}", "(set %s 999)"}[g.r.N(2)], dot)
		o := w.Eval(wt+"\n", 0)
		gv := w.Eval(getter+"\n", 0)
		res.Evals += 2
		res.Ev("inside_code_accesses", 1)
		now := OutStr(gv)
		if o.Panic != "" {
			res.Violate("escaped-panic:"+o.Site, o.Panic, setup+wt)
			return res
		}
		if p.allow {
			res.Ev("writes_allowed", 1)
			if o.Err != nil || now != "999" {
				res.Violate("public-member-not-writable:shape-"+p.shape, fmt.Sprintf("%s must succeed and the inside getter %s must then give 999; write: %s, getter: %s", wt, getter, OutStr(o), now), setup+wt)
				return res
			}
		} else {
			res.Ev("writes_forbidden", 1)
			if o.Err == nil || now != strconv.Itoa(p.leaf.val) {
				res.Violate("private-member-written:shape-"+p.shape, fmt.Sprintf("%s assigns a private member from outside and must fail leaving %d; write: %s, inside getter %s now gives %s", wt, p.leaf.val, OutStr(o), getter, now), setup+wt)
				return res
			}
		}
		// inside code keeps full access, also when called from outside
		so := w.Eval(setter+"\n", 0)
		gv2 := w.Eval(getter+"\n", 0)
		res.Evals += 2
		res.Ev("inside_code_accesses", 1)
		if so.Err != nil || OutStr(gv2) != "4242" {
			res.Violate("inside-code-lost-access", fmt.Sprintf("the package's own public setter %s and getter %s must work from outside; setter: %s, getter: %s", setter, getter, OutStr(so), OutStr(gv2)), setup+setter)
			return res
		}
	}
	// writes whose last hop is a lower-case member that is not a plain value (a nested package, a
	// function, a hash): traversal through a nested package is allowed under any case, replacing it is not
	type c18nv struct {
		parts []string
		node  *c18node
	}
	var nvs []c18nv
	var walkNV func(n *c18node, prefix []string)
	walkNV = func(n *c18node, prefix []string) {
		for _, k := range n.ord {
			c := n.kids[k]
			pp := append(append([]string{}, prefix...), k)
			if c.kind != "val" && !c18Upper(k) {
				nvs = append(nvs, c18nv{pp, c})
			}
			if c.kind == "pkg" {
				walkNV(c, pp)
			}
		}
	}
	walkNV(tree, nil)
	for j, nv := range nvs {
		if j >= 4 {
			break
		}
		root := roots[g.r.N(len(roots))]
		dot := root + "." + strings.Join(nv.parts, ".")
		w := NewSutRun(true)
		w.Eval(setup, 0)
		wt := fmt.Sprintf([]string{"{%s = 999}", "(set %s 999)", "(set %s P)"}[g.r.N(3)], dot)
		o := w.Eval(wt+"\n", 0)
		res.Evals++
		res.Ev("writes_forbidden", 1)
		res.Ev("writes_forbidden_nonvalue_member_"+nv.node.kind, 1)
		if o.Panic != "" {
			res.Violate("escaped-panic:"+o.Site, o.Panic, setup+wt)
			return res
		}
		if o.Err == nil {
			res.Violate("private-member-written:kind-"+nv.node.kind, fmt.Sprintf("%s replaces a private (lower-case) %s member from outside and must fail; write: %s", wt, nv.node.kind, OutStr(o)), setup+wt)
			return res
		}
		if nv.node.kind == "pkg" {
			// the nested package is still the one the package defined: its inside getter gives the member's canary
			for _, k := range nv.node.ord {
				if c := nv.node.kids[k]; c.kind == "val" {
					getter := "(" + "P." + strings.Join(append(append([]string{}, nv.parts...), "Get_"+c18Ident(k)), ".") + ")"
					gv := w.Eval(getter+"\n", 0)
					res.Evals++
					if OutStr(gv) != strconv.Itoa(c.val) {
						res.Violate("private-member-written:kind-pkg", fmt.Sprintf("after the refused write %s the getter %s must still give %d, got %s", wt, getter, c.val, OutStr(gv)), setup+wt)
						return res
					}
					break
				}
			}
		}
	}
	return res
}
